use aho_corasick::*;
use aho_corasick::automaton::OverlappingState;
fn main() {
    c13_stepwise_overlapping();
    for kind in [AhoCorasickKind::NoncontiguousNFA, AhoCorasickKind::ContiguousNFA, AhoCorasickKind::DFA] {
        for mk in [MatchKind::LeftmostFirst, MatchKind::LeftmostLongest] {
            let ac = AhoCorasick::builder().kind(Some(kind)).match_kind(mk).build(["abc", ""]).unwrap();
            println!("C01 {:?} {:?} find(abx) = {:?}  iter(aabx)={:?}", kind, mk, ac.find("abx"), ac.find_iter("aabx").map(|m| (m.pattern().as_usize(), m.start(), m.end())).collect::<Vec<_>>());
        }
        let ac = AhoCorasick::builder().kind(Some(kind)).build(["", "ab"]).unwrap();
        println!("C03 {:?} overlapping(ab) = {:?}", kind, ac.find_overlapping_iter("ab").map(|m| (m.pattern().as_usize(), m.start(), m.end())).collect::<Vec<_>>());
        let ac = AhoCorasick::builder().kind(Some(kind)).start_kind(StartKind::Both).build(["abc", "bc", "c"]).unwrap();
        let mut st = OverlappingState::start();
        let mut v = vec![];
        for _ in 0..6 {
            ac.try_find_overlapping(Input::new("abc").anchored(Anchored::Yes), &mut st).unwrap();
            if let Some(m) = st.get_match() { v.push((m.pattern().as_usize(), m.start(), m.end())); }
        }
        println!("C09 {:?} anchored overlapping(abc) = {:?}", kind, v);
        let ac = AhoCorasick::builder().kind(Some(kind)).build(["abc"]).unwrap();
        let r = std::panic::catch_unwind(|| ac.is_match(Input::new("abc").anchored(Anchored::Yes)));
        println!("C13 {:?} is_match(anchored on unanchored searcher) = {:?}", kind, r.map_err(|_| "panic"));
    }
}
// C13 (second finding, discovered by the rejection harness): stepwise
// overlapping search on a non-standard searcher must be rejected.
#[allow(dead_code)]
fn c13_stepwise_overlapping() {
    use aho_corasick::automaton::OverlappingState;
    let ac = AhoCorasick::builder().match_kind(MatchKind::LeftmostFirst).build(["ab", "b"]).unwrap();
    let mut st = OverlappingState::start();
    println!("C13b try_find_overlapping on leftmost-first = {:?}", ac.try_find_overlapping("ab", &mut st).map(|_| st.get_match()));
}
