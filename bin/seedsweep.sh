#!/bin/bash
# usage: seedsweep.sh <worktree> <seed>:<prop>[:tier] ...   (development aid; not registered)
# Runs seedtest.sh for each pair sequentially in the given scratch worktree.
wt=$1; shift
for sp in "$@"; do
  IFS=: read seed prop tier <<< "$sp"
  VERIF_TIMEOUT_SCALE=${VERIF_TIMEOUT_SCALE:-2} VERIF_JOBS=${VERIF_JOBS:-5} /verif/bin/seedtest.sh $seed $wt $prop ${tier:-quick}
done
