#!/bin/bash
# usage: batch.sh <tier> <prop>...   (development aid; not registered)
tier=$1; shift
for p in "$@"; do
  VERIF_JOBS=${VERIF_JOBS:-14} python3 /verif/bin/check.py $p $tier > /var/tmp/out_$p.txt 2>&1
  echo "$p exit=$?" >> /var/tmp/batch.log
done
