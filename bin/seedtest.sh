#!/bin/bash
# usage: seedtest.sh <seed name> <worktree> <prop> [tier] [VERIF_ONLY filter]
# Applies seeded/<name>/patch.diff in the scratch worktree, runs the check for
# <prop> against that worktree (VERIF_REPO), reverts the patch, appends the
# outcome to /var/tmp/seedtest.log. Development aid, never registered.
name=$1; wt=$2; prop=$3; tier=${4:-quick}; only=$5
cd $wt && git checkout -q -- src && git apply /verif/seeded/$name/patch.diff || { echo "$name: patch does not apply" >> /var/tmp/seedtest.log; exit 2; }
out=/var/tmp/seedout_${name}_${prop}.txt
VERIF_ONLY=$only VERIF_REPO=$wt VERIF_OUT=/var/tmp/verif-seed-out/$name VERIF_JOBS=${VERIF_JOBS:-6} python3 /verif/bin/check.py $prop $tier > $out 2>&1
rc=$?
cd $wt && git checkout -q -- src
echo "$name $prop $tier exit=$rc $(grep -c '^VIOLATION' $out) violations; $(grep -m1 '^VIOLATION' $out)" >> /var/tmp/seedtest.log
