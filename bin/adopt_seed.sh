#!/bin/bash
# usage: adopt_seed.sh <ID> <seed name> "<change>" "<needs>"   (development aid)
# Copies a sub-agent's verified deliverables from /tmp/mut/<ID>-out into /verif/seeded/<name>/.
id=$1; name=$2; change=$3; needs=$4
d=/verif/seeded/$name; mkdir -p $d
cp /tmp/mut/$id-out/patch.diff $d/; cp /tmp/mut/$id-out/README.txt $d/ 2>/dev/null
rm -rf $d/demo; cp -r /tmp/mut/$id-out/demo $d/demo; rm -rf $d/demo/target
python3 - "$name" "$id" "$change" "$needs" <<'PY'
import json,sys
name,pid,change,needs=sys.argv[1:5]
json.dump({"seed":name,"breaks_property":pid,"change":change,"needs_to_manifest":needs,
 "confirmed_independently":"bin/verify_seed.sh: patch applies to a scratch worktree of /repo HEAD, `cargo test --workspace --no-fail-fast --offline` passes with it (163 unit + 102 doc tests), demo/ exits non-zero with it and 0 without it",
 "origin":"written by a fresh sub-agent that saw only the property text and its own scratch worktree",
 "framework_result":"pending"}, open("/verif/seeded/%s/meta.json"%name,"w"), indent=1)
PY
