#!/usr/bin/env python3
"""setup: build vdump against /repo (hooks on) and validate the oracles
against the crate's own test table. Offline, from files on disk only."""
import os
import re
import sys

sys.path.insert(0, os.path.join(os.path.dirname(os.path.abspath(__file__)), ".."))
from vlib import core  # noqa: E402
from vlib.selftest import oracle_selftest  # noqa: E402


def main():
    run = core.Run("setup", "quick", 0)
    try:
        run.build_vdump()
        rc, out = oracle_selftest(run)
        print(out[-2000:])
        if rc != 0:
            print("setup: oracle self-test failed")
            sys.exit(1)
        p = core.sh([run.vdump, "stubcheck"], check=False, timeout=300)
        print(p.stdout[-500:])
        if p.returncode != 0:
            print("setup: stub validation failed")
            sys.exit(1)
        print("setup: ok")
    finally:
        run.cleanup()


if __name__ == "__main__":
    main()
