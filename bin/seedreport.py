#!/usr/bin/env python3
"""Folds /var/tmp/seedtest.log into seeded/<id>/meta.json and prints the
DESIGN.md table (development aid)."""
import json, os, re, sys
log = {}
for l in open("/var/tmp/seedtest.log"):
    m = re.match(r"(\S+) (\S+) (\S+) exit=(\d+) (\d+) violations; ?(?:VIOLATION property=\S+ replay=(\S+))?", l)
    if m:
        seed, prop, tier, rc, nv, rp = m.groups()
        log.setdefault(seed, []).append((prop, tier, int(rc), int(nv), rp))
rows = []
for seed in sorted(os.listdir("/verif/seeded")):
    mp = os.path.join("/verif/seeded", seed, "meta.json")
    if not os.path.exists(mp):
        continue
    meta = json.load(open(mp))
    runs = log.get(seed, [])
    caught = [r for r in runs if r[2] == 1]
    if caught:
        last = caught[-1]
        h = os.path.basename(last[4] or "").replace(".replay", "")
        meta["framework_result"] = "caught by `check.py %s %s` (exit 1, native replay reproduces): harness %s" % (last[0], last[1], h)
        res = "caught: %s %s, `%s`" % (last[0], last[1], h)
    elif runs:
        last = runs[-1]
        meta["framework_result"] = "not caught by `check.py %s %s` (exit %d)" % (last[0], last[1], last[2])
        res = "**missed** by %s %s (exit %d)" % (last[0], last[1], last[2])
    else:
        res = "not run"
    meta["what_i_ran"] = ["bin/verify_seed.sh <scratch worktree> <seed dir>"] + ["VERIF_REPO=<scratch worktree with the patch applied> check.py %s %s -> exit %d" % (r[0], r[1], r[2]) for r in runs]
    json.dump(meta, open(mp, "w"), indent=1)
    rows.append("| %s | %s | %s | %s |" % (seed, meta["breaks_property"], meta["needs_to_manifest"][:150].replace("|", "/"), res))
print("| seed | property | needs | result |\n|---|---|---|---|")
print("\n".join(rows))
