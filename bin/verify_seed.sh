#!/bin/bash
# usage: verify_seed.sh <scratch worktree> <mutation dir (patch.diff, demo/)>
# Confirms: patch applies, existing tests pass with it, demo fails with it and passes without.
wt=$1; md=$2
cd $wt || exit 2
git checkout -q -- src || exit 2
( cd $md/demo && sed -i "s#path = \"[^\"]*\"#path = \"$wt\"#" Cargo.toml )
echo "== demo WITHOUT patch"; ( cd $md/demo && cargo run --offline -q --target-dir $wt/target-demo >/dev/null 2>$md/demo_without.log; echo "exit=$?" )
git apply $md/patch.diff || { echo "patch does not apply"; exit 2; }
echo "== tests WITH patch"; cargo test --workspace --no-fail-fast --offline 2>&1 | grep -E "^test result|FAILED" | head -5
echo "== demo WITH patch"; ( cd $md/demo && cargo run --offline -q --target-dir $wt/target-demo >/dev/null 2>$md/demo_with.log; echo "exit=$?" )
git checkout -q -- src
