#!/usr/bin/env python3
"""Regenerates /verif/MANIFEST.json from the table below (single source)."""
import json
import os
import subprocess

VERIF = "/verif"
ALL = ["C%02d" % i for i in range(1, 21)]

LEVEL_NOTE = ("Bounded: holds for all symbolic inputs within the N/P/L/K bounds written in the evidence file, nothing "
              "beyond. Pattern lists are a finite catalogue (automata built natively by /repo's builders, then "
              "symbolically searched). Trusted: rustc MIR, Kani 0.68, CBMC 6.11 + CaDiCaL, the loop-free "
              "reconstruction hook (round-trip checked natively every run), the environment stubs listed per harness.")

ENABLED = set(open(os.path.join(VERIF, "enabled.txt")).read().split())

BMC = "Kani/CBMC bounded model checking of the real code on natively built automata: "
ALL_CLAIMS = {
    "C01": ("3 C01", BMC + "symbolic haystack (all byte values) and span, result compared with an executable "
            "leftmost-first/longest specification; iterator by K=2 induction",
            "SAT-decided equality between try_find/FindIter on every haystack up to N bytes and the leftmost "
            "definition, per catalogue pattern list; transfers to both NFAs through the C04 simulation step"),
    "C02": ("3 C02", BMC + "symbolic haystack and span vs an executable standard-semantics specification (earliest "
            "end, longest, first supplied); iterator by K=2 induction",
            "SAT-decided equality with the standard-semantics definition on every haystack up to N bytes"),
    "C03": ("3 C03", BMC + "stepwise overlapping search: complete drain from the fresh state vs the ordered occurrence "
            "list, plus an inductive step from every (match state, i matches reported) pre-state on a symbolic haystack",
            "SAT-decided: every call on an OverlappingState yields the specification's next occurrence (order, "
            "exactly-once, termination) for haystacks up to N bytes; induction over the call history"),
    "C04": ("3 C04", "Kani/CBMC per-state simulation step between the three automaton representations (relation "
            "proposed by a native product walk, every related pair x symbolic byte x both anchoring modes decided by "
            "the solver), start states and metadata compared; automatic and low-level builds compared table-for-table",
            "inductive equivalence of noncontiguous NFA, contiguous NFA and DFA per catalogue case and builder "
            "configuration: covers haystacks of every length for that case"),
    "C05": ("3 C05", BMC + "search with the reconstructed prefilter (start-byte, rare-byte, memmem variants; memchr "
            "stubbed by its contract) on symbolic haystacks/spans vs the executable specification (the prefilter-free "
            "build is tied to the same specification by C01/C02/C03)",
            "SAT-decided: no haystack up to N bytes makes a prefilter-accelerated find/iterator/overlapping step "
            "differ from the definition, per activated prefilter variant"),
    "C06": ("3 C06", BMC + "packed Rabin-Karp find_in/FindIter on fully symbolic exactly-sized haystacks and spans vs "
            "the leftmost definition; 128-bit slim Teddy (pshufb stubbed by its lane semantics) on windowed symbolic "
            "content around the vector boundary; fat Teddy and 256-bit slim Teddy (AVX2; vpshufb stubbed) on the same "
            "windows through a direct call of the concrete implementation; the candidate-verification primitives shared "
            "by every packed variant (is_prefix, Pattern::is_prefix_raw, is_equal_raw) as units for needle lengths 0..13 "
            "with symbolic contents",
            "SAT-decided equality with the leftmost definition for Rabin-Karp (all contents up to N bytes) and for "
            "Teddy (128-bit slim, 256-bit slim, fat) on a symbolic window at stated offsets of a 16..35 byte haystack"),
    "C07": ("3 C07", "Kani/CBMC inductive step of StreamChunkIter::next from an arbitrary pre-state under an explicit "
            "invariant, symbolic stream (incl. streams shorter than the longest pattern), symbolic read-size schedule, "
            "small buffer capacity via the hook; the constructor's state (directly and through the top-level searcher's "
            "Arc<dyn> forwarders) as base case; thorough: complete runs from the real constructor on short streams",
            "one next() from every state satisfying Inv yields the next chunk of the specification and re-establishes "
            "Inv, for every read schedule: covers streams of any length for the case/capacity"),
    "C08": ("3 C08", "same inductive step (chunk positions and bytes: concatenation of chunks is the stream, match "
            "chunks are exactly the matches) plus complete try_stream_replace_all_with runs on short streams with a "
            "recording writer, output compared with the in-memory replacement specification",
            "SAT-decided byte-for-byte equality of stream replacement output for all streams up to T bytes and all "
            "read schedules; chunk-level induction for longer streams"),
    "C09": ("3 C09", BMC + "anchored find / iterator (K=2 induction) / stepwise overlapping drain on symbolic "
            "haystacks and span starts vs the anchored specification, DFAs with start kinds Both and Anchored",
            "SAT-decided equality with the anchored definition on every haystack up to N bytes"),
    "C10": ("3 C10", BMC + "relational harness: search on a span vs search of the copied sub-slice vs search with "
            "arbitrary bytes outside the span, plus start=end+1; non-overlapping and overlapping steps, both anchorings; prefilter-accelerated "
            "automata and the packed searchers too (Rabin-Karp relationally; 128-bit Teddy on a span ending inside the haystack with a "
            "symbolic window straddling span.end, vs the leftmost definition restricted to the span)",
            "SAT-decided: span search == shifted sub-slice search and is independent of bytes outside the span"),
    "C11": ("3 C11", BMC + "case-insensitive builds searched on fully symbolic haystacks vs the specification with "
            "A-Z/a-z folding only; exhaustive solver check of the builders' letter flip over all 256 byte values",
            "SAT-decided equality with the folded definition (so '@','[','`','{' and bytes >= 0x80 are covered)"),
    "C12": ("3 C12", "Kani/CBMC bounded model checking of the real replace drivers and the real non-overlapping iterator "
            "over an abstract searcher (hook: try_find answered from a fully symbolic table = every search function on an "
            "N-byte haystack), symbolic haystack (valid UTF-8 assumed for the str variant), symbolic stop point of the "
            "closure, vs the splice specification; composed with C01/C02 (try_find is the defined search). Thorough adds "
            "the drivers over real automata at N<=3",
            "SAT-decided: for every search function, every haystack up to N bytes and every stop point the output is the "
            "splice of the iterator's matches (str: matches off character boundaries skipped, no panic); holds for every "
            "pattern list by composition with C01/C02"),
    "C13": ("3 C13", BMC + "AhoCorasick values rebuilt around each automaton kind for every match kind x start kind; "
            "fallible APIs: Err iff the rejection predicate; infallible APIs: must panic on every path in rejected "
            "cells (should_panic + unsatisfiable 'returned normally' witness), must not panic in accepted cells",
            "SAT-decided agreement of Ok/Err/panic with the configuration-only predicate for symbolic haystack and "
            "requested anchoring"),
    "C14": ("3 C14", BMC + "is_match (earliest search) and earliest mode vs existence of an occurrence and vs the "
            "normal search, symbolic haystack/span/anchoring",
            "SAT-decided: is_match == find.is_some() == exists; earliest result is an occurrence ending no later"),
    "C15": ("3 C15", BMC + "CBMC pointer/bounds/overflow/panic checks on exactly sized haystack objects for the "
            "packed searchers (Rabin-Karp; Teddy raw-pointer loads) and the automaton searches, plus match "
            "well-formedness",
            "every dereference/offset/index in the encoded code is proved in-bounds of the exact haystack allocation "
            "for all contents within the stated sizes; no reachable panic"),
    "C16": ("3 C16", "Kani/CBMC per-state contract check (all related states x symbolic byte x both anchorings: no "
            "panic, dead absorbing, special-class consistency, valid match lists) and the documented search recipe vs "
            "the built-in search on symbolic haystacks",
            "exhaustive per automaton over states reachable from the start states; recipe equality up to N bytes"),
    "C17": ("3 C17", BMC + "sequential purity: an arbitrary symbolic search (and an overlapping step) before a second "
            "symbolic search does not change its result, a clone answers identically, and a search after another "
            "search over one and the same haystack object equals the definition; concurrent schedules are outside the claim",
            "SAT-decided independence from an arbitrary prior search, K=2 suffices by induction"),
    "C18": ("3 C18", "the C07 inductive step with a reader failing at a symbolic call, and complete stream "
            "replacement runs with a writer failing at a symbolic call",
            "an injected failure surfaces as Err, never a panic, nothing yielded/written before it is wrong, Inv is "
            "preserved across the error, end of stream only after the reader reported it"),
    "C19": ("3 C19", BMC + "hook counters: transitions <= span length, positions strictly increasing, failure-link "
            "traversals <= transitions (0 for the DFA) on symbolic haystacks (find and one overlapping step); through the "
            "memchr contract model: prefilter scans start at non-decreasing offsets, stay inside the span, and a "
            "start-byte prefilter examines each byte at most twice; structural lemma depth(fail(s)) < depth(s) for "
            "every state of the dumped NFA",
            "SAT-decided work bound per search for haystacks up to N bytes plus the per-state lemma that makes it "
            "length independent"),
}
CLAIMED = {k: v for k, v in ALL_CLAIMS.items() if k in ENABLED}

NOT_YET = "check not built yet in this round (see DESIGN.md section 6 for the order)"
NA = {
    "C20": "quantifies over the builders for arbitrary pattern collections; symbolic execution of the builders is out "
           "of reach (a 2-pattern noncontiguous build did not finish symex in 25 min, DESIGN.md section 2) and no "
           "runnable bound says anything about 'every collection'; vdump asserts the metadata per catalogue case "
           "concretely, which is not a solver verdict and is not offered as a claim",
}


def main():
    src = subprocess.run(["git", "-C", "/repo", "log", "--format=%H %s"], capture_output=True, text=True).stdout
    hook_commits = [l.split()[0] for l in src.splitlines() if "verif hooks" in l]
    checks = []
    for pid in ALL:
        if pid in CLAIMED:
            ref, tech, text = CLAIMED[pid]
            checks.append({
                "property_id": pid,
                "quick_cmd": "python3 /verif/bin/check.py %s quick" % pid,
                "thorough_cmd": "python3 /verif/bin/check.py %s thorough" % pid,
                "evidence_file": "/verif/evidence/%s.json" % pid,
                "replay_cmd_template": "python3 /verif/bin/check.py --replay {path}",
                "engine": "kani-cbmc",
                "level_claimed": {"category": "model_checking", "text": text, "design_ref": ref},
                "level_note": LEVEL_NOTE,
                "technique": tech,
            })
    na = [{"property_id": p, "reason": NA.get(p, NOT_YET)} for p in ALL if p not in CLAIMED]
    m = {
        "version": 1,
        "setup_cmd": "python3 /verif/bin/setup.py",
        "hooks": {
            "guard": "--cfg aho_corasick_verif",
            "enable": "RUSTFLAGS='--cfg aho_corasick_verif' AHO_CORASICK_VERIF_HOOKS=/verif/hooks (the guarded "
                      "`pub mod verif` in each hooked source file include!s its body from /verif/hooks/)",
            "baseline_off_cmd": "cd /repo && cargo test --workspace --no-fail-fast --offline",
            "source_commits": hook_commits,
            "add_only": True,
        },
        "engines": [{
            "name": "kani-cbmc", "path": "/verif/bin/check.py",
            "serves_properties": sorted(CLAIMED),
            "kind_free_text": "cargo kani 0.68 (CBMC 6.11, CaDiCaL) over /repo's real search code; automata built "
                              "natively by /repo's builders (vdump) and passed in as constants",
        }],
        "checks": checks,
        "not_applicable": na,
        "notes": "exit 2 = inconclusive (timeout/OOM/unwinding/vacuity/non-reproducing trace), never reported as held",
    }
    with open(os.path.join(VERIF, "MANIFEST.json"), "w") as f:
        json.dump(m, f, indent=1)
        f.write("\n")


if __name__ == "__main__":
    main()
