#!/usr/bin/env python3
"""Regenerates /verif/MANIFEST.json from the table below (single source)."""
import json
import os
import subprocess

VERIF = "/verif"
ALL = ["C%02d" % i for i in range(1, 21)]

LEVEL_NOTE = ("Bounded: holds for all symbolic inputs within the N/P/L/K bounds written in the evidence file, nothing "
              "beyond. Pattern lists are a finite catalogue (automata built natively by /repo's builders, then "
              "symbolically searched). Trusted: rustc MIR, Kani 0.68, CBMC 6.11 + CaDiCaL, the loop-free "
              "reconstruction hook (round-trip checked natively every run), the environment stubs listed per harness.")

CLAIMED = {
    "C01": ("3 C01", "Kani/CBMC bounded model checking of the real search + iterator code on natively built DFAs: "
            "symbolic haystack (all byte values), symbolic span, result compared with an executable leftmost-first/"
            "longest specification; iterator by K=2 induction",
            "SAT-decided equality between try_find/FindIter on every haystack up to N bytes and the leftmost "
            "definition, per catalogue pattern list; transfers to both NFAs through the C04 simulation step"),
    "C02": ("3 C02", "Kani/CBMC bounded model checking of the real search + iterator code against an executable "
            "standard-semantics specification (earliest end, longest, first supplied); iterator by K=2 induction",
            "SAT-decided equality with the standard-semantics definition on every haystack up to N bytes"),
}

NOT_YET = "check not built yet in this round (see DESIGN.md section 6 for the order)"
NA = {
    "C20": "quantifies over the builders for arbitrary pattern collections; symbolic execution of the builders is out "
           "of reach (a 2-pattern noncontiguous build did not finish symex in 25 min, DESIGN.md section 2) and no "
           "runnable bound says anything about 'every collection'; vdump asserts the metadata per catalogue case "
           "concretely, which is not a solver verdict and is not offered as a claim",
}


def main():
    src = subprocess.run(["git", "-C", "/repo", "log", "--format=%H %s"], capture_output=True, text=True).stdout
    hook_commits = [l.split()[0] for l in src.splitlines() if "verif hooks" in l]
    checks = []
    for pid in ALL:
        if pid in CLAIMED:
            ref, tech, text = CLAIMED[pid]
            checks.append({
                "property_id": pid,
                "quick_cmd": "python3 /verif/bin/check.py %s quick" % pid,
                "thorough_cmd": "python3 /verif/bin/check.py %s thorough" % pid,
                "evidence_file": "/verif/evidence/%s.json" % pid,
                "replay_cmd_template": "python3 /verif/bin/check.py --replay {path}",
                "engine": "kani-cbmc",
                "level_claimed": {"category": "model_checking", "text": text, "design_ref": ref},
                "level_note": LEVEL_NOTE,
                "technique": tech,
            })
    na = [{"property_id": p, "reason": NA.get(p, NOT_YET)} for p in ALL if p not in CLAIMED]
    m = {
        "version": 1,
        "setup_cmd": "python3 /verif/bin/setup.py",
        "hooks": {
            "guard": "--cfg aho_corasick_verif",
            "enable": "RUSTFLAGS='--cfg aho_corasick_verif' AHO_CORASICK_VERIF_HOOKS=/verif/hooks (the guarded "
                      "`pub mod verif` in each hooked source file include!s its body from /verif/hooks/)",
            "baseline_off_cmd": "cd /repo && cargo test --workspace --no-fail-fast --offline",
            "source_commits": hook_commits,
            "add_only": True,
        },
        "engines": [{
            "name": "kani-cbmc", "path": "/verif/bin/check.py",
            "serves_properties": sorted(CLAIMED),
            "kind_free_text": "cargo kani 0.68 (CBMC 6.11, CaDiCaL) over /repo's real search code; automata built "
                              "natively by /repo's builders (vdump) and passed in as constants",
        }],
        "checks": checks,
        "not_applicable": na,
        "notes": "exit 2 = inconclusive (timeout/OOM/unwinding/vacuity/non-reproducing trace), never reported as held",
    }
    with open(os.path.join(VERIF, "MANIFEST.json"), "w") as f:
        json.dump(m, f, indent=1)
        f.write("\n")


if __name__ == "__main__":
    main()
