#!/usr/bin/env python3
"""check.py <property> <quick|thorough>   |   check.py --replay <file>

exit 0: the property held on everything explored (KNOWN-FINDING lines, if
        any, name listed findings);
exit 1: `VIOLATION property=<id> replay=<path>`: a solver counterexample that
        reproduces natively through the public API;
exit 2: inconclusive (timeout, out of memory, unwinding bound too small,
        vacuous harness, build failure, non-reproducing trace). Never a pass.
"""
import json
import os
import sys
import time

sys.path.insert(0, os.path.join(os.path.dirname(os.path.abspath(__file__)), ".."))
from vlib import core, props  # noqa: E402
from vlib.core import Inconclusive, Run, log  # noqa: E402

VERIF = core.VERIF


def write_replay(run, res, decoded, which):
    d = os.path.join(VERIF if core.REPO == "/repo" else os.environ.get("VERIF_OUT", "/var/tmp/verif-seed-out"), "replays", run.prop)
    os.makedirs(d, exist_ok=True)
    path = os.path.join(d, "%s.replay" % res.h.name)
    m = res.h.meta
    with open(path, "w") as f:
        f.write("property=%s\n" % run.prop)
        f.write("harness=%s\n" % res.h.name)
        f.write("check=%s\n" % which)
        f.write("template=%s\n" % m.get("replay_template", m["template"]))
        f.write("kind=%s\n" % m.get("kind", "auto"))
        if res.h.case is not None:
            f.write("case=%s\n" % res.h.case.line())
        else:
            f.write("case=unit std 0 0 default 1 both 61\n")
        fixed = m.get("fixed_inputs", {})
        for k, v in list(fixed.items()) + list(decoded.items()):
            f.write("%s=%s\n" % (k, v))
    return path


def native_replay(run, path):
    kv = dict(l.strip().split("=", 1) for l in open(path) if "=" in l)
    if kv.get("template") == "work":
        return work_replay(run, kv)
    p = core.sh([run.vdump, "replay", path], check=False, timeout=120)
    return p.returncode, p.stdout.strip()


def work_replay(run, kv):
    """C19: the work counters are observed natively on the real crate linked
    against the memchr contract model (vwork)."""
    import shutil
    src = os.path.join(run.dir, "vwork")
    if not os.path.exists(src):
        shutil.copytree(os.path.join(VERIF, "vwork"), src, ignore=shutil.ignore_patterns("target", "Cargo.lock"))
        ct = open(os.path.join(src, "Cargo.toml")).read().replace('path = "/repo"', 'path = "%s"' % core.REPO)
        open(os.path.join(src, "Cargo.toml"), "w").write(ct)
        core.copy_lock(os.path.join(src, "Cargo.lock"))
    b = core.sh(["cargo", "build", "--offline", "--manifest-path", os.path.join(src, "Cargo.toml"),
                 "--target-dir", os.path.join(run.dir, "vwork-target")], env=run.env, check=False, timeout=900)
    if b.returncode != 0:
        return 2, "vwork does not build: " + b.stdout[-800:]
    f = kv["case"].split()
    mk = {"std": "0", "lf": "1", "ll": "2"}[f[1]]
    sk = {"both": "0", "un": "1", "an": "2"}[f[6]]
    p = core.sh([os.path.join(run.dir, "vwork-target", "debug", "vwork"), kv.get("kind", "dfa"), mk, f[2], f[3], sk, f[7],
                 kv.get("hay", ""), kv.get("s", "0"), kv.get("e", "0"), kv.get("anchored", "0"),
                 kv.get("ov", "0"), kv.get("pfcode", "0")], check=False, timeout=120)
    return p.returncode, p.stdout.strip()


def load_known():
    p = os.path.join(VERIF, "known_findings.json")
    if os.path.exists(p):
        return json.load(open(p)).get("known", [])
    return []


def main():
    if len(sys.argv) >= 3 and sys.argv[1] == "--replay":
        run = Run("replay", "quick", 0)
        try:
            run.build_vdump()
            rc, out = native_replay(run, sys.argv[2])
            print(out)
            sys.exit(rc)
        finally:
            run.cleanup()
    prop, tier = sys.argv[1], sys.argv[2] if len(sys.argv) > 2 else os.environ.get("VERIF_TIER", "quick")
    seed = int(os.environ.get("VERIF_SEED", "0") or 0)
    jobs = int(os.environ.get("VERIF_JOBS", "12"))
    run = Run(prop, tier, seed)
    out_root = VERIF if core.REPO == "/repo" else os.environ.get("VERIF_OUT", "/var/tmp/verif-seed-out")
    if os.environ.get("VERIF_ONLY"):
        # a filtered (debugging) run must never overwrite the evidence of the registered check
        out_root = os.environ.get("VERIF_OUT", "/var/tmp/verif-only-out")
    ev_path = os.path.join(out_root, "evidence", "%s.json" % prop)
    os.makedirs(os.path.dirname(ev_path), exist_ok=True)
    exit_code = 2
    evidence = {
        "property_id": prop, "tier": tier, "seed": seed, "level": "model_checking",
        "coverage": {"evaluations": 0, "distinct_nontrivial": 0, "samples": []},
        "assumptions": [], "wall_s": 0.0, "violations": 0,
    }
    try:
        cases, mk = props.schedule(prop, tier, seed)
        facts = run.phase_a(cases)
        harnesses = mk(facts)
        only = os.environ.get("VERIF_ONLY")
        if only:  # debugging aid; never used by registered commands
            harnesses = [h for h in harnesses if any(o in h.name for o in only.split(","))]
        if os.environ.get("VERIF_DRY"):  # development aid: schedule only (phase A + harness list), nothing is decided
            for h in harnesses:
                print("DRY %s unwind=%d timeout=%d mem=%d optional=%s" % (h.name, h.unwind, h.timeout, h.mem_gb, h.optional))
            print("DRY %s %s: %d cases, %d harnesses" % (prop, tier, len(cases), len(harnesses)))
            run.cleanup()
            os._exit(0)
        pre = props.native_findings(prop, run, facts) if hasattr(props, "native_findings") else []
        log("%s %s: %d cases, %d harnesses" % (prop, tier, len(cases), len(harnesses)))
        results = run.phase_b(harnesses, jobs=jobs)
        violations, inconclusive, known_hits = [], [], []
        known = [k for k in load_known() if k.get("property") == prop]
        not_decided = []
        for res in results:
            if res.status == "inconclusive" and res.h.optional:
                # a deep (thorough-only) harness that did not reach a verdict - wall cap, memory, a per-loop
                # bound that turned out too small (unwinding assertion), a construct Kani cannot encode, an
                # unsatisfied witness - is outside the claim of this run and says so; it never counts as held
                res.status = "not_decided"
                not_decided.append(res)
            elif res.status == "inconclusive":
                inconclusive.append(res)
            elif res.status == "failed":
                # replay every distinct failing check that came with values
                reproduced = False
                tried = 0
                playback = list(res.playback)
                if res.h.should_panic and not [p for p in playback if p[0] != "cover"]:
                    # a "returned normally" witness in a should_panic harness is a cover trace
                    playback = [("assertion", d, v) for (k, d, v) in playback if d in res.h.must_unsat]
                if res.h.meta.get("replay_template") == "pk_teddy" and not [p for p in playback if p[0] != "cover"]:
                    # a pointer/bounds check failed without solver values (an out-of-bounds pointer was formed
                    # or dereferenced): confirmed natively on guard-page-backed memory (vdump guardteddy)
                    playback = [("assertion", res.failed_checks[0][1] if res.failed_checks else "failed", None)]
                if not res.h.schema and not [p for p in playback if p[0] != "cover"]:
                    # harnesses whose native replay is exhaustive need no solver values
                    playback = [("assertion", res.failed_checks[0][1] if res.failed_checks else "failed", [])]
                for (kind, desc, vals) in playback:
                    if kind == "cover":
                        continue
                    decoded = {} if vals is None else core.decode_playback(res.h.schema, vals)
                    if decoded is None:
                        continue
                    tried += 1
                    res.decoded = decoded
                    path = write_replay(run, res, decoded, desc)
                    rc, out = native_replay(run, path)
                    log("    replay %s -> rc=%d %s" % (path, rc, out[-300:]))
                    res.replay = {"path": path, "rc": rc, "output": out[-600:]}
                    if rc == 1:
                        reproduced = True
                        hit = None
                        for k in known:
                            if res.h.case is not None and k.get("case_patterns") == [p.decode("latin1") for p in res.h.case.pats] \
                                    and k.get("template") == res.h.meta["template"] \
                                    and k.get("match_kind") == res.h.case.mk:
                                hit = k
                        if hit:
                            known_hits.append((res, hit))
                        else:
                            violations.append((res, path))
                        break
                if not reproduced:
                    res.status = "inconclusive"
                    res.reason = ("solver counterexample did not reproduce natively (%d tried): %s"
                                  % (tried, res.reason))
                    inconclusive.append(res)
        for f in pre:
            violations.append((None, f))
        held = [r for r in results if r.status == "held"]
        # evidence
        cov = evidence["coverage"]
        cov["evaluations"] = sum(r.n_checks + r.n_covers for r in results if r.status in ("held", "failed"))
        cov["distinct_nontrivial"] = len(held)
        cov["rule"] = ("one evaluation = one CBMC property (assertion, arithmetic/pointer/bounds check, unwinding "
                       "assertion or cover witness) decided by the SAT solver over all symbolic inputs of its harness; "
                       "a harness is distinct by (template, case, automaton kind, bounds) and non-trivial when its "
                       "verdict is SUCCESSFUL with every kani::cover! witness SATISFIED")
        cov["harnesses"] = len(results)
        cov["harnesses_held"] = len(held)
        cov["harnesses_inconclusive"] = len(inconclusive)
        cov["harnesses_not_decided"] = [dict(harness=r.h.name, reason=r.reason) for r in not_decided]
        for r in not_decided:
            print("NOT-DECIDED %s (deep harness, outside the claim of this run): %s" % (r.h.name, r.reason[:200]))
        cov["solver_seconds"] = round(sum(r.verif_time or 0 for r in results), 1)
        cov["queries_discharged"] = sum(r.n_checks + r.n_covers for r in held)
        cov["samples"] = [r.summary() for r in results]
        cov["catalogue"] = [c.describe() for c in cases]
        cov["traces_validated_against_impl"] = sum(1 for r in results if r.replay)
        evidence["assumptions"] = props.assumptions(prop, tier) + run.notes
        evidence["violations"] = len(violations)
        for (res, hit) in known_hits:
            print("KNOWN-FINDING: property=%s %s" % (prop, hit.get("what", hit)))
        if violations:
            for (res, path) in violations:
                print("VIOLATION property=%s replay=%s" % (prop, path))
            exit_code = 1
        elif inconclusive:
            for r in inconclusive:
                print("INCONCLUSIVE %s: %s" % (r.h.name, r.reason[:300]))
            exit_code = 2
        else:
            exit_code = 0
    except Inconclusive as e:
        print("INCONCLUSIVE (pipeline): %s" % (str(e)[:3000],))
        evidence["coverage"]["explanation"] = "pipeline stopped: " + str(e)[:500]
        exit_code = 2
    except Exception as e:  # noqa: a driver error is never a verdict
        import traceback
        traceback.print_exc()
        print("INCONCLUSIVE (driver error): %r" % (e,))
        evidence["coverage"]["explanation"] = "driver error: %r" % (e,)
        exit_code = 2
    finally:
        evidence["wall_s"] = round(time.time() - run.t0, 1)
        # an inconclusive run must not leave evidence that validates as a pass
        evidence["outcome"] = {0: "held", 1: "violation", 2: "inconclusive"}[exit_code]
        with open(ev_path, "w") as f:
            json.dump(evidence, f, indent=1)
        if os.environ.get("VERIF_KEEP") != "1":
            run.cleanup()
    print("%s %s: exit %d in %.0fs" % (prop, tier, exit_code, time.time() - run.t0))
    sys.exit(exit_code)


if __name__ == "__main__":
    main()
