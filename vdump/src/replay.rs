//! Native replay of solver counterexamples through the crate's *public* API:
//! the searcher is built from the pattern list with the real builder, the
//! call is executed, and the observation is compared with the specification.
//!
//! Replay file: `key=value` lines. Exit status: 1 = the violation reproduces,
//! 0 = it does not (observed == specified), 2 = cannot replay.
use crate::oracle::{self, M};
use crate::{builder, parse_case, unhex, CaseSpec};
use aho_corasick::{
    automaton::OverlappingState, AhoCorasick, AhoCorasickKind, Anchored, Input,
    Match,
};
use std::collections::BTreeMap;

fn kind_of(s: &str) -> Option<AhoCorasickKind> {
    match s {
        "nnfa" => Some(AhoCorasickKind::NoncontiguousNFA),
        "cnfa" => Some(AhoCorasickKind::ContiguousNFA),
        "dfa" => Some(AhoCorasickKind::DFA),
        _ => None,
    }
}

fn tup(m: Option<Match>) -> Option<M> {
    m.map(|m| (m.pattern().as_usize(), m.start(), m.end()))
}

pub struct Rp {
    pub kv: BTreeMap<String, String>,
    pub case: CaseSpec,
    pub pats: Vec<Vec<u8>>,
}

impl Rp {
    pub fn get(&self, k: &str) -> &str {
        self.kv.get(k).map(|s| s.as_str()).unwrap_or_else(|| panic!("replay file lacks {}", k))
    }
    pub fn usize(&self, k: &str) -> usize {
        self.get(k).parse().unwrap()
    }
    pub fn flag(&self, k: &str) -> bool {
        self.kv.get(k).map_or(false, |v| v == "1" || v == "true")
    }
    pub fn bytes(&self, k: &str) -> Vec<u8> {
        unhex(self.get(k))
    }
    pub fn ac(&self) -> AhoCorasick {
        let mut b = builder(&self.case);
        b.kind(kind_of(self.kv.get("kind").map(|s| s.as_str()).unwrap_or("auto")));
        b.build(&self.pats).expect("build")
    }
    pub fn prefs(&self) -> Vec<&[u8]> {
        self.pats.iter().map(|p| &p[..]).collect()
    }
}

fn report(what: &str, got: &dyn std::fmt::Debug, want: &dyn std::fmt::Debug, bad: bool) -> i32 {
    println!("{}: observed={:?} specified={:?} -> {}", what, got, want, if bad { "VIOLATION REPRODUCES" } else { "agrees" });
    bad as i32
}

pub fn replay(path: &str) -> i32 {
    let text = match std::fs::read_to_string(path) {
        Ok(t) => t,
        Err(e) => {
            eprintln!("cannot read {}: {}", path, e);
            return 2;
        }
    };
    let mut kv = BTreeMap::new();
    for line in text.lines() {
        if let Some(i) = line.find('=') {
            kv.insert(line[..i].trim().to_string(), line[i + 1..].trim().to_string());
        }
    }
    if kv.get("case").map_or(false, |c| c.starts_with("packed ")) {
        let r = std::panic::catch_unwind(std::panic::AssertUnwindSafe(|| run_packed(&kv)));
        return match r {
            Ok(code) => code,
            Err(_) => {
                println!("replay panicked inside the crate -> VIOLATION REPRODUCES (panic)");
                1
            }
        };
    }
    let case = parse_case(kv.get("case").expect("case"));
    let pats = case.pats.clone();
    let rp = Rp { kv, case, pats };
    let r = std::panic::catch_unwind(std::panic::AssertUnwindSafe(|| run(&rp)));
    match r {
        Ok(code) => code,
        Err(_) => {
            println!("replay panicked inside the crate -> VIOLATION REPRODUCES (panic)");
            1
        }
    }
}

fn run_packed(kv: &BTreeMap<String, String>) -> i32 {
    use aho_corasick::Span;
    let spec = crate::parse_packed(kv.get("case").unwrap());
    let srch = crate::build_packed(&spec).expect("packed searcher");
    let pats: Vec<&[u8]> = spec.pats.iter().map(|p| &p[..]).collect();
    let us = |k: &str| kv.get(k).unwrap_or_else(|| panic!("replay file lacks {}", k)).parse::<usize>().unwrap();
    match kv.get("template").map(|s| s.as_str()).unwrap_or("") {
        "pk_find" => {
            let hay = unhex(kv.get("hay").unwrap());
            let (s, e) = (us("s"), us("e"));
            let got = tup(srch.find_in(&hay, Span { start: s, end: e }));
            let want = oracle::leftmost(&pats, &hay, s, e, spec.kind, false, false);
            report("packed find_in", &got, &want, got != want)
        }
        "pk_iter" => {
            let hay = unhex(kv.get("hay").unwrap());
            let (s, e) = (us("s"), us("e"));
            // public API: iterate over the sub-slice hay[..e] from a haystack that starts at s
            let sub = &hay[s..e];
            let got: Vec<M> = srch.find_iter(sub).map(|m| (m.pattern().as_usize(), m.start() + s, m.end() + s)).collect();
            let mut want = vec![];
            let mut pos = s;
            while let Some(m) = oracle::leftmost(&pats, &hay, pos, e, spec.kind, false, false) {
                want.push(m);
                pos = m.2;
            }
            report("packed find_iter", &got, &want, got != want)
        }
        "pk_span" => {
            let hay = unhex(kv.get("hay").unwrap());
            let other = unhex(kv.get("other").unwrap());
            let (s, e) = (us("s"), us("e"));
            let sub = hay[s..e].to_vec();
            let mix: Vec<u8> = (0..hay.len()).map(|i| if i >= s && i < e { hay[i] } else { other[i] }).collect();
            let r1 = tup(srch.find_in(&hay, Span { start: s, end: e }));
            let r2 = tup(srch.find_in(&sub, Span { start: 0, end: sub.len() })).map(|m| (m.0, m.1 + s, m.2 + s));
            let r3 = tup(srch.find_in(&mix, Span { start: s, end: e }));
            report("packed span vs sub-slice vs outside bytes", &(r1, r3), &(r2, r2), r1 != r2 || r1 != r3)
        }
        "pk_teddy" if !kv.contains_key("w") => {
            // a pointer/bounds check failed without solver values (forming or dereferencing an
            // out-of-bounds pointer): repeat the searches in a child process on a haystack flush
            // against inaccessible pages; a fault there is the out-of-bounds access
            let exe = std::env::current_exe().expect("own path");
            let st = std::process::Command::new(exe)
                .args(["guardteddy", kv.get("case").unwrap(), kv.get("len").unwrap(), kv.get("off").unwrap(), kv.get("pad").unwrap(),
                       kv.get("end").unwrap_or(kv.get("len").unwrap())])
                .status()
                .expect("spawn guard child");
            let bad = !st.success();
            report("Teddy on a haystack flush against inaccessible pages (all window contents over the pattern bytes)",
                   &format!("child ended with {:?}", st), &"no access outside the haystack, results equal to the definition", bad)
        }
        "pk_teddy" => {
            let (len, off, pad) = (us("len"), us("off"), us("pad") as u8);
            let w = unhex(kv.get("w").unwrap());
            let s = kv.get("s").map(|v| v.parse::<usize>().unwrap()).unwrap_or(0);
            // span end inside the haystack (C10's pk_teddy_end); the whole haystack otherwise
            let end = kv.get("end").map(|v| v.parse::<usize>().unwrap()).unwrap_or(len);
            let mut hay = vec![pad; len];
            hay[off..off + w.len()].copy_from_slice(&w);
            let got = tup(srch.find_in(&hay, Span { start: s, end }));
            let want = oracle::leftmost(&pats, &hay, s, end, spec.kind, false, false);
            report("Teddy find_in", &got, &want, got != want)
        }
        t => {
            eprintln!("no native replay for packed template {}", t);
            2
        }
    }
}

fn input<'h>(rp: &Rp, hay: &'h [u8], s: usize, e: usize) -> Input<'h> {
    Input::new(hay)
        .span(s..e)
        .anchored(if rp.flag("anchored") { Anchored::Yes } else { Anchored::No })
        .earliest(rp.flag("earliest"))
}

fn run(rp: &Rp) -> i32 {
    let hay = rp.kv.get("hay").map(|h| unhex(h)).unwrap_or_default();
    let pats = rp.prefs();
    let (mk, ci, an) = (rp.case.mk, rp.case.ci, rp.flag("anchored"));
    match rp.get("template") {
        "find" => {
            let (s, e) = (rp.usize("s"), rp.usize("e"));
            let ac = rp.ac();
            let got = tup(ac.try_find(input(rp, &hay, s, e)).expect("try_find"));
            let want = oracle::find(&pats, &hay, s, e, mk, an, ci);
            report("find", &got, &want, got != want)
        }
        "find_after" => {
            // a search over the same haystack object precedes the one that is compared
            let (s, e) = (rp.usize("s"), rp.usize("e"));
            let (s1, e1) = (rp.usize("s1"), rp.usize("e1"));
            let ac = rp.ac();
            let a1 = if rp.flag("a1") { Anchored::Yes } else { Anchored::No };
            let first = tup(ac.try_find(Input::new(&hay[..]).span(s1..e1).anchored(a1)).expect("first try_find"));
            let got = tup(ac.try_find(input(rp, &hay, s, e)).expect("try_find"));
            let want = oracle::find(&pats, &hay, s, e, mk, an, ci);
            println!("first search over the same haystack: span {}..{} -> {:?}", s1, e1, first);
            report("find after another search over the same haystack", &got, &want, got != want)
        }
        "iter2" => {
            let (s, e) = (rp.usize("s"), rp.usize("e"));
            let ac = rp.ac();
            let got: Vec<M> = ac
                .try_find_iter(input(rp, &hay, s, e))
                .expect("try_find_iter")
                .map(|m| (m.pattern().as_usize(), m.start(), m.end()))
                .collect();
            let mut want = vec![];
            let (mut pos, mut last) = (s, None);
            while let Some(m) = oracle::iter_next(&pats, &hay, pos, e, last, mk, an, ci) {
                want.push(m);
                pos = m.2;
                last = Some(m.2);
            }
            report("find_iter", &got, &want, got != want)
        }
        "overlapping" => {
            let (s, e) = (rp.usize("s"), rp.usize("e"));
            let ac = rp.ac();
            let mut st = OverlappingState::start();
            let mut got: Vec<M> = vec![];
            let mut extra_after_none = false;
            let mut seen_none = false;
            for _ in 0..(hay.len() + 2) * (pats.len() + 1) + 4 {
                ac.try_find_overlapping(input(rp, &hay, s, e), &mut st).expect("try_find_overlapping");
                match tup(st.get_match()) {
                    Some(m) => {
                        if seen_none {
                            extra_after_none = true;
                        }
                        got.push(m)
                    }
                    None => seen_none = true,
                }
            }
            let mut want = vec![];
            for end in s..=e {
                let n = oracle::count_ending_at(&pats, &hay, s, e, end, an, ci);
                for k in 0..n {
                    want.push(oracle::nth_ending_at(&pats, &hay, s, e, end, k, an, ci).unwrap());
                }
            }
            report("overlapping stepping", &got, &want, got != want || extra_after_none)
        }
        "is_match" => {
            let (s, e) = (rp.usize("s"), rp.usize("e"));
            let ac = rp.ac();
            let got = ac.try_find(input(rp, &hay, s, e).earliest(true)).expect("try_find").is_some();
            let want = oracle::exists(&pats, &hay, s, e, an, ci);
            report("is_match", &got, &want, got != want)
        }
        "span" => {
            let (s, e) = (rp.usize("s"), rp.usize("e"));
            let other = rp.bytes("other");
            let ac = rp.ac();
            let sub = hay[s..e].to_vec();
            let mix: Vec<u8> = (0..hay.len()).map(|i| if i >= s && i < e { hay[i] } else { other[i] }).collect();
            let r1 = tup(ac.try_find(input(rp, &hay, s, e)).expect("try_find"));
            let r2 = tup(ac.try_find(input(rp, &sub, 0, sub.len())).expect("try_find")).map(|m| (m.0, m.1 + s, m.2 + s));
            let r3 = tup(ac.try_find(input(rp, &mix, s, e)).expect("try_find"));
            let r4 = if e < hay.len() { tup(ac.try_find(input(rp, &hay, e + 1, e)).expect("try_find")) } else { None };
            let inside = r1.map_or(true, |m| m.1 >= s && m.2 <= e);
            report("span vs sub-slice vs outside bytes", &(r1, r3, r4), &(r2, r2, None::<M>), r1 != r2 || r1 != r3 || r4.is_some() || !inside)
        }
        "span_ov" => {
            let (s, e) = (rp.usize("s"), rp.usize("e"));
            let other = rp.bytes("other");
            let ac = rp.ac();
            let sub = hay[s..e].to_vec();
            let mix: Vec<u8> = (0..hay.len()).map(|i| if i >= s && i < e { hay[i] } else { other[i] }).collect();
            let (mut s1, mut s2, mut s3) = (OverlappingState::start(), OverlappingState::start(), OverlappingState::start());
            let mut bad = false;
            let mut obs = vec![];
            for _ in 0..2 {
                ac.try_find_overlapping(input(rp, &hay, s, e), &mut s1).unwrap();
                ac.try_find_overlapping(input(rp, &sub, 0, sub.len()), &mut s2).unwrap();
                ac.try_find_overlapping(input(rp, &mix, s, e), &mut s3).unwrap();
                let (a, b, c) = (tup(s1.get_match()), tup(s2.get_match()).map(|m| (m.0, m.1 + s, m.2 + s)), tup(s3.get_match()));
                if a != b || a != c {
                    bad = true;
                }
                obs.push((a, b, c));
            }
            report("overlapping span vs sub-slice vs outside bytes", &obs, &"all three equal", bad)
        }
        "recipe" => {
            let n = rp.usize("n");
            let h = &hay[..n];
            let (got, want) = match rp.get("kind") {
                "dfa" => {
                    let mut b = aho_corasick::dfa::DFA::builder();
                    b.match_kind(crate::mk_of(mk)).ascii_case_insensitive(ci).prefilter(rp.case.pf).byte_classes(rp.case.bc).start_kind(crate::sk_of(rp.case.sk));
                    let a = b.build(&rp.pats).expect("build");
                    (recipe(&a, h), tup(aho_corasick::automaton::Automaton::try_find(&a, &Input::new(h)).unwrap()))
                }
                "cnfa" => {
                    let mut b = aho_corasick::nfa::contiguous::NFA::builder();
                    b.match_kind(crate::mk_of(mk)).ascii_case_insensitive(ci).prefilter(rp.case.pf).byte_classes(rp.case.bc);
                    if let Some(dd) = rp.case.dd { b.dense_depth(dd); }
                    let a = b.build(&rp.pats).expect("build");
                    (recipe(&a, h), tup(aho_corasick::automaton::Automaton::try_find(&a, &Input::new(h)).unwrap()))
                }
                _ => {
                    let mut b = aho_corasick::nfa::noncontiguous::NFA::builder();
                    b.match_kind(crate::mk_of(mk)).ascii_case_insensitive(ci).prefilter(rp.case.pf);
                    if let Some(dd) = rp.case.dd { b.dense_depth(dd); }
                    let a = b.build(&rp.pats).expect("build");
                    (recipe(&a, h), tup(aho_corasick::automaton::Automaton::try_find(&a, &Input::new(h)).unwrap()))
                }
            };
            report("documented recipe vs built-in", &got, &want, got != want)
        }
        "sim" => replay_sim(rp),
        "std_struct" => replay_std_struct(rp),
        "purity" | "purity_clone" => replay_purity(rp),
        "sim_meta" => replay_sim_meta(rp),
        "replace_script" => replay_replace_script(rp, &hay),
        "stream" => replay_stream(rp, &hay),
        "pk_prim" => replay_pk_prim(),
        "ac_meta" => replay_ac_meta(rp),
        "reject" | "reject_inf" | "reject_stream" | "reject_replace" => replay_reject(rp, &hay),
        "ac_ismatch" => {
            let (s, e) = (rp.usize("s"), rp.usize("e"));
            let ac = rp.ac();
            let im = ac.is_match(input(rp, &hay, s, e));
            let f = tup(ac.find(input(rp, &hay, s, e)));
            let ex = oracle::exists(&pats, &hay, s, e, an, ci);
            let want = oracle::find(&pats, &hay, s, e, mk, an, ci);
            report("AhoCorasick::is_match / find", &(im, f), &(ex, want), im != ex || f != want)
        }
        "opp_case" => {
            let b = rp.usize("b") as u8;
            let got = aho_corasick::verif::prefilter::opposite_case(b);
            let want = if b.is_ascii_uppercase() { b + 32 } else if b.is_ascii_lowercase() { b - 32 } else { b };
            report("opposite_ascii_case", &got, &want, got != want)
        }
        t => {
            eprintln!("no native replay for template {}", t);
            2
        }
    }
}

/// C17: the same sequence of searches on the natively built low-level
/// automaton (the top-level wrapper would mask start-kind effects): request B
/// on a fresh value, an unrelated request A, request B again, and B on a clone
/// of the used value.
fn replay_purity(rp: &Rp) -> i32 {
    use aho_corasick::automaton::Automaton;
    fn key(r: Result<Option<Match>, aho_corasick::MatchError>) -> (bool, Option<M>) {
        match r {
            Ok(m) => (true, tup(m)),
            Err(_) => (false, None),
        }
    }
    fn run<A: Automaton + Clone>(aut: &A, rp: &Rp) -> i32 {
        let g = |k: &str| rp.kv.get(k).cloned();
        let (h1, h2) = match (g("h1"), g("h2")) {
            (Some(a), Some(b)) => (unhex(&a), unhex(&b)),
            _ => {
                let h = unhex(&g("h").unwrap_or_default());
                (h.clone(), h)
            }
        };
        let us = |k: &str, d: usize| rp.kv.get(k).map(|v| v.parse::<usize>().unwrap()).unwrap_or(d);
        let (s1, e1, s2, e2) = (us("s1", 0), us("e1", h1.len()), us("s2", 0), us("e2", h2.len()));
        let an = |k: &str| if rp.kv.get(k).map_or(false, |v| v == "1") { Anchored::Yes } else { Anchored::No };
        let (a1, a2) = (an("a1"), if rp.kv.contains_key("a2") { an("a2") } else { an("a") });
        let fresh = key(aut.try_find(&Input::new(&h2[..]).span(s2..e2).anchored(a2)));
        let _ = aut.try_find(&Input::new(&h1[..]).span(s1..e1).anchored(a1));
        let after = key(aut.try_find(&Input::new(&h2[..]).span(s2..e2).anchored(a2)));
        let cl = aut.clone();
        let on_clone = key(cl.try_find(&Input::new(&h2[..]).span(s2..e2).anchored(a2)));
        report("request B fresh / after request A / on a clone of the used value", &(after, on_clone), &(fresh, fresh), fresh != after || fresh != on_clone)
    }
    let (mk, ci) = (rp.case.mk, rp.case.ci);
    match rp.get("kind") {
        "dfa" => {
            let mut b = aho_corasick::dfa::DFA::builder();
            b.match_kind(crate::mk_of(mk)).ascii_case_insensitive(ci).prefilter(rp.case.pf).byte_classes(rp.case.bc).start_kind(crate::sk_of(rp.case.sk));
            run(&b.build(&rp.pats).expect("build"), rp)
        }
        "cnfa" => {
            let mut b = aho_corasick::nfa::contiguous::NFA::builder();
            b.match_kind(crate::mk_of(mk)).ascii_case_insensitive(ci).prefilter(rp.case.pf).byte_classes(rp.case.bc);
            run(&b.build(&rp.pats).expect("build"), rp)
        }
        _ => {
            let mut b = aho_corasick::nfa::noncontiguous::NFA::builder();
            b.match_kind(crate::mk_of(mk)).ascii_case_insensitive(ci).prefilter(rp.case.pf);
            run(&b.build(&rp.pats).expect("build"), rp)
        }
    }
}

/// Native confirmation of a stream counterexample (`stream_step`, `stream_run`,
/// `stream_replace`, `stream_wfault`): the solver's stream content is searched
/// and replaced through the public stream APIs of the real crate (buffer
/// capacity = longest pattern + `spare` through the capacity hook) under EVERY
/// read schedule (all compositions of the stream length), with - when `fault`
/// is set - a reader that fails once at every possible call and a writer that
/// fails at every possible call. Any disagreement with the in-memory result,
/// any panic, a wrong prefix before an error, or an end of stream / Ok that
/// hides an error reproduces the violation.
fn replay_stream(rp: &Rp, hay: &[u8]) -> i32 {
    // The solver's stream first. A violated *internal* invariant need not be observable on
    // that very stream (the solver is free to pick one without a match), so the same
    // exhaustive schedule sweep is then repeated on the streams obtained by writing each
    // pattern at each offset of it (confirmation only: the verdict is the solver's).
    let mut streams: Vec<Vec<u8>> = vec![hay.to_vec()];
    for p in rp.pats.iter() {
        for o in 0..=hay.len() {
            let mut h = hay.to_vec();
            if h.len() < o + p.len() {
                h.resize(o + p.len(), b'~');
            }
            h[o..o + p.len()].copy_from_slice(p);
            if h.len() <= hay.len() + 1 && !streams.contains(&h) {
                streams.push(h);
            }
        }
    }
    let mut last = 0;
    for (i, h) in streams.iter().enumerate() {
        if i > 0 {
            println!("(derived stream {:?})", String::from_utf8_lossy(h));
        }
        last = replay_stream_one(rp, h);
        if last != 0 {
            return last;
        }
    }
    last
}

fn replay_stream_one(rp: &Rp, hay: &[u8]) -> i32 {
    struct Sched<'a> {
        data: &'a [u8],
        pos: usize,
        sizes: Vec<usize>,
        idx: usize,
        calls: usize,
        fail_at: Option<usize>,
        failed: std::rc::Rc<std::cell::Cell<bool>>,
    }
    impl<'a> std::io::Read for Sched<'a> {
        fn read(&mut self, buf: &mut [u8]) -> std::io::Result<usize> {
            let call = self.calls;
            self.calls += 1;
            if Some(call) == self.fail_at {
                self.failed.set(true);
                return Err(std::io::Error::new(std::io::ErrorKind::Other, "injected"));
            }
            let remaining = self.data.len() - self.pos;
            if remaining == 0 || buf.is_empty() {
                return Ok(0);
            }
            let want = self.sizes.get(self.idx).copied().unwrap_or(remaining).max(1);
            self.idx += 1;
            let n = want.min(remaining).min(buf.len());
            buf[..n].copy_from_slice(&self.data[self.pos..self.pos + n]);
            self.pos += n;
            Ok(n)
        }
    }
    struct Rec {
        out: Vec<u8>,
        calls: usize,
        fail_at: Option<usize>,
        failed: bool,
        /// accept at most this many bytes per write call (short writes)
        limit: usize,
    }
    impl std::io::Write for Rec {
        fn write(&mut self, buf: &[u8]) -> std::io::Result<usize> {
            let call = self.calls;
            self.calls += 1;
            if Some(call) == self.fail_at {
                self.failed = true;
                return Err(std::io::Error::new(std::io::ErrorKind::Other, "injected"));
            }
            let n = buf.len().min(self.limit.max(1));
            self.out.extend_from_slice(&buf[..n]);
            Ok(n)
        }
        fn flush(&mut self) -> std::io::Result<()> {
            Ok(())
        }
    }
    let ac = rp.ac();
    let spare = rp.kv.get("spare").and_then(|v| v.parse::<usize>().ok()).unwrap_or(1);
    let fault = rp.flag("fault");
    let t = hay.len();
    let want: Vec<M> = ac.find_iter(hay).map(|m| (m.pattern().as_usize(), m.start(), m.end())).collect();
    let repl = |m: &Match| -> Vec<u8> {
        let tag = b'0' + m.pattern().as_usize() as u8;
        if m.pattern().as_usize() % 2 == 1 { vec![tag, tag] } else { vec![tag] }
    };
    let mut want_out: Vec<u8> = vec![];
    ac.replace_all_with_bytes(hay, &mut want_out, |m, _, dst| {
        dst.extend_from_slice(&repl(m));
        true
    });
    aho_corasick::verif::buffer::set_spare_capacity(Some(spare));
    let mut bad: Vec<String> = vec![];
    let nsched: usize = if t == 0 { 1 } else { 1usize << (t - 1) };
    'outer: for mask in 0..nsched {
        // cut after byte i when bit i is set
        let mut sizes = vec![];
        let mut run = 0;
        for i in 0..t {
            run += 1;
            if i + 1 == t || (mask >> i) & 1 == 1 {
                sizes.push(run);
                run = 0;
            }
        }
        let faults: Vec<Option<usize>> = if fault { std::iter::once(None).chain((0..=sizes.len() + 1).map(Some)).collect() } else { vec![None] };
        for fa in faults.iter().copied() {
            // ---- stream search (the iterator is driven past an error item: the reader fails once)
            let rfailed = std::rc::Rc::new(std::cell::Cell::new(false));
            let rdr = Sched { data: hay, pos: 0, sizes: sizes.clone(), idx: 0, calls: 0, fail_at: fa, failed: rfailed.clone() };
            let r = std::panic::catch_unwind(std::panic::AssertUnwindSafe(|| {
                let mut got: Vec<M> = vec![];
                let mut before_err: Option<Vec<M>> = None;
                let mut errs = 0;
                let it = ac.try_stream_find_iter(rdr).expect("stream search accepted");
                for (k, item) in it.enumerate() {
                    match item {
                        Ok(m) => got.push((m.pattern().as_usize(), m.start(), m.end())),
                        Err(_) => {
                            errs += 1;
                            if before_err.is_none() {
                                before_err = Some(got.clone());
                            }
                        }
                    }
                    if k > 4 * t + 16 {
                        break;
                    }
                }
                (got, before_err, errs)
            }));
            match r {
                Err(_) => bad.push(format!("stream search panicked (reads {:?}, reader fault at call {:?})", sizes, fa)),
                Ok((got, before_err, errs)) => {
                    if let Some(pre) = &before_err {
                        if pre.len() > want.len() || pre[..] != want[..pre.len()] {
                            bad.push(format!("matches before the read error {:?} are not a prefix of {:?} (reads {:?}, fault at {:?})", pre, want, sizes, fa));
                        }
                    }
                    if fa.is_none() && errs > 0 {
                        bad.push("error item without a reader failure".into());
                    }
                    if rfailed.get() && errs == 0 {
                        bad.push(format!("the reader failed at call {:?} but the stream search yielded no error item (reads {:?}): matches {:?}", fa, sizes, got));
                    }
                    if got != want {
                        bad.push(format!("stream matches {:?} != in-memory {:?} (reads {:?}, reader fault at call {:?}{})", got, want, sizes, fa,
                            if fa.is_some() { ", iteration resumed after the error item" } else { "" }));
                    }
                }
            }
            // ---- stream replacement, writer failing at every call (or never)
            let nw = if fault { want_out.len() + 3 } else { 0 };
            // (writer fault position, bytes accepted per write call)
            let wplans: Vec<(Option<usize>, usize)> = [(None, usize::MAX), (None, 1)].into_iter().chain((0..nw).map(|k| (Some(k), usize::MAX))).collect();
            for (wf, limit) in wplans {
                let rfailed2 = std::rc::Rc::new(std::cell::Cell::new(false));
                let rdr = Sched { data: hay, pos: 0, sizes: sizes.clone(), idx: 0, calls: 0, fail_at: fa, failed: rfailed2.clone() };
                let mut wtr = Rec { out: vec![], calls: 0, fail_at: wf, failed: false, limit };
                let mut handed_ok = true;
                let r = std::panic::catch_unwind(std::panic::AssertUnwindSafe(|| {
                    let res = ac.try_stream_replace_all_with(rdr, &mut wtr, |m, bytes, w| {
                        if m.end() > hay.len() || bytes != &hay[m.start()..m.end()] {
                            handed_ok = false;
                        }
                        std::io::Write::write_all(w, &repl(m))
                    });
                    res.is_ok()
                }));
                match r {
                    Err(_) => bad.push(format!("stream replacement panicked (reads {:?}, reader fault {:?}, writer fault {:?})", sizes, fa, wf)),
                    Ok(ok) => {
                        let read_failed = fa.map_or(false, |_| !ok && !wtr.failed);
                        if !handed_ok {
                            bad.push(format!("replacement closure not handed the matched bytes (reads {:?})", sizes));
                        }
                        if wtr.failed && ok {
                            bad.push(format!("writer failure at call {:?} not reported (reads {:?})", wf, sizes));
                        }
                        if rfailed2.get() && ok {
                            bad.push(format!("the reader failed at call {:?} but stream replacement returned Ok (reads {:?})", fa, sizes));
                        }
                        if fa.is_none() && !wtr.failed && !ok {
                            bad.push(format!("stream replacement failed without a fault (reads {:?})", sizes));
                        }
                        if ok && wtr.out != want_out && fa.is_none() {
                            bad.push(format!("stream replacement wrote {:?}, in-memory replacement gives {:?} (reads {:?}, writer accepts {} byte(s) per call)",
                                String::from_utf8_lossy(&wtr.out), String::from_utf8_lossy(&want_out), sizes, if limit == usize::MAX { "all".to_string() } else { limit.to_string() }));
                        }
                        if wtr.out.len() > want_out.len() || wtr.out[..] != want_out[..wtr.out.len()] {
                            bad.push(format!("bytes written {:?} are not a prefix of the fault-free output {:?} (reads {:?}, reader fault {:?}, writer fault {:?})",
                                String::from_utf8_lossy(&wtr.out), String::from_utf8_lossy(&want_out), sizes, fa, wf));
                        }
                        let _ = read_failed;
                    }
                }
                if bad.len() >= 4 {
                    break 'outer;
                }
            }
            // ---- the slice-table entry point (try_stream_replace_all), same writers
            if fa.is_none() {
                let table: Vec<Vec<u8>> = (0..rp.pats.len()).map(|i| vec![b'0' + i as u8]).collect();
                let want_tbl = ac.replace_all_bytes(hay, &table);
                let nw = if fault { want_tbl.len() + 3 } else { 0 };
                let wplans: Vec<(Option<usize>, usize)> = [(None, usize::MAX), (None, 1)].into_iter().chain((0..nw).map(|k| (Some(k), usize::MAX))).collect();
                for (wf, limit) in wplans {
                    let rdr = Sched { data: hay, pos: 0, sizes: sizes.clone(), idx: 0, calls: 0, fail_at: None, failed: std::rc::Rc::new(std::cell::Cell::new(false)) };
                    let mut wtr = Rec { out: vec![], calls: 0, fail_at: wf, failed: false, limit };
                    let r = std::panic::catch_unwind(std::panic::AssertUnwindSafe(|| ac.try_stream_replace_all(rdr, &mut wtr, &table).is_ok()));
                    match r {
                        Err(_) => bad.push(format!("try_stream_replace_all panicked (reads {:?}, writer fault {:?})", sizes, wf)),
                        Ok(ok) => {
                            if wtr.failed && ok {
                                bad.push(format!("try_stream_replace_all: writer failure at call {:?} not reported, Ok(()) with output {:?} of {:?} (reads {:?})",
                                    wf, String::from_utf8_lossy(&wtr.out), String::from_utf8_lossy(&want_tbl), sizes));
                            }
                            if !wtr.failed && (!ok || wtr.out != want_tbl) {
                                bad.push(format!("try_stream_replace_all wrote {:?}, replace_all_bytes gives {:?} (ok={}, reads {:?})",
                                    String::from_utf8_lossy(&wtr.out), String::from_utf8_lossy(&want_tbl), ok, sizes));
                            }
                            if wtr.out.len() > want_tbl.len() || wtr.out[..] != want_tbl[..wtr.out.len()] {
                                bad.push(format!("try_stream_replace_all: bytes written {:?} are not a prefix of {:?}", String::from_utf8_lossy(&wtr.out), String::from_utf8_lossy(&want_tbl)));
                            }
                        }
                    }
                    if bad.len() >= 4 {
                        break 'outer;
                    }
                }
            }
            if bad.len() >= 4 {
                break 'outer;
            }
        }
    }
    aho_corasick::verif::buffer::set_spare_capacity(None);
    report("stream search / stream replacement over every read schedule", &bad, &"equal to the in-memory result", !bad.is_empty())
}

/// Native form of the compositional C12 harnesses: the real replace drivers
/// (and the real non-overlapping iterator) run natively over the abstract
/// searcher the solver chose (hook `ScriptAut`), compared with the splice
/// specification. When the scripted match sequence can be realised by a real
/// pattern list (the matched substrings, leftmost-first), the same comparison
/// is repeated through the public `AhoCorasick` API and reported as well.
fn replay_replace_script(rp: &Rp, hay: &[u8]) -> i32 {
    use aho_corasick::automaton::Automaton;
    use aho_corasick::verif::automaton::ScriptAut;
    let n = rp.usize("n");
    let which = rp.get("which").to_string();
    let stop = rp.kv.get("stop").and_then(|v| v.parse::<usize>().ok()).unwrap_or(0);
    let mut table = [(false, 0u8, 0u8, 0u8); 8];
    for i in 0..=n {
        let g = |k: &str| rp.kv.get(&format!("{}{}", k, i)).and_then(|v| v.parse::<usize>().ok()).unwrap_or(0);
        table[i] = (g("present") != 0, g("pid") as u8, g("ms") as u8, g("me") as u8);
    }
    let aut = ScriptAut { table, std: rp.flag("std") };
    // the iterator rule on the table
    let look = |p: usize| -> Option<M> {
        if p > n || !table[p].0 { None } else { Some((table[p].1 as usize, table[p].2 as usize, table[p].3 as usize)) }
    };
    let mut seq: Vec<M> = vec![];
    let (mut pos, mut last) = (0usize, None);
    for _ in 0..=n + 1 {
        let m = match look(pos) {
            Some((_, ms, me)) if ms == me && Some(me) == last => look(pos + 1),
            m => m,
        };
        match m {
            Some(m) => {
                seq.push(m);
                pos = m.2;
                last = Some(m.2);
            }
            None => break,
        }
    }
    let tag = |p: usize| -> Vec<u8> { if which == "b" && p % 2 == 1 { vec![b'0' + p as u8; 2] } else { vec![b'0' + p as u8] } };
    let boundary = |i: usize| i == n || (i < n && (hay[i] as i8) >= -0x40);
    let mut want: Vec<u8> = vec![];
    let (mut copied, mut calls) = (0usize, 0usize);
    for &(p, ms, me) in seq.iter() {
        if which == "s" && !(boundary(ms) && boundary(me)) {
            continue;
        }
        want.extend_from_slice(&hay[copied..ms]);
        want.extend_from_slice(&tag(p));
        copied = me;
        calls += 1;
        if calls == stop {
            break;
        }
    }
    want.extend_from_slice(&hay[copied..]);
    let run = |a: &dyn Fn() -> Vec<u8>| -> Result<Vec<u8>, ()> { std::panic::catch_unwind(std::panic::AssertUnwindSafe(|| a())).map_err(|_| ()) };
    let got = if which == "b" {
        run(&|| {
            let mut dst = vec![];
            let mut c = 0usize;
            aut.try_replace_all_with_bytes(hay, &mut dst, |m, _b, dst| {
                dst.extend_from_slice(&tag(m.pattern().as_usize()));
                c += 1;
                c != stop
            })
            .unwrap();
            dst
        })
    } else {
        let text = match std::str::from_utf8(hay) {
            Ok(t) => t.to_string(),
            Err(_) => {
                println!("counterexample haystack is not valid UTF-8 (outside the harness's assumption)");
                return 2;
            }
        };
        run(&|| {
            let mut dst = String::new();
            let mut c = 0usize;
            aut.try_replace_all_with(&text, &mut dst, |m, _s, dst| {
                dst.push((b'0' + m.pattern().as_usize() as u8) as char);
                c += 1;
                c != stop
            })
            .unwrap();
            dst.into_bytes()
        })
    };
    let bad = match &got {
        Ok(g) => *g != want,
        Err(()) => true,
    };
    println!("abstract searcher: iterator yields {:?} on {:?}", seq, String::from_utf8_lossy(hay));
    // best-effort realisation through the public API
    let mut pats: Vec<Vec<u8>> = vec![];
    for &(_, ms, me) in seq.iter() {
        let p = hay[ms..me].to_vec();
        if !pats.contains(&p) {
            pats.push(p);
        }
    }
    if !pats.is_empty() {
        if let Ok(ac) = AhoCorasick::builder().match_kind(aho_corasick::MatchKind::LeftmostFirst).build(&pats) {
            let real: Vec<(usize, usize)> = ac.find_iter(hay).map(|m| (m.start(), m.end())).collect();
            let scripted: Vec<(usize, usize)> = seq.iter().map(|m| (m.1, m.2)).collect();
            if real == scripted {
                let out = std::panic::catch_unwind(std::panic::AssertUnwindSafe(|| {
                    if which == "b" {
                        let mut dst = vec![];
                        ac.replace_all_with_bytes(hay, &mut dst, |_m, _b, d| {
                            d.push(b'#');
                            true
                        });
                        dst
                    } else {
                        let mut dst = String::new();
                        ac.replace_all_with(std::str::from_utf8(hay).unwrap(), &mut dst, |_m, _s, d| {
                            d.push('#');
                            true
                        });
                        dst.into_bytes()
                    }
                }));
                let mut w2: Vec<u8> = vec![];
                let mut c2 = 0;
                for &(ms, me) in scripted.iter() {
                    if which == "s" && !(boundary(ms) && boundary(me)) {
                        continue;
                    }
                    w2.extend_from_slice(&hay[c2..ms]);
                    w2.push(b'#');
                    c2 = me;
                }
                w2.extend_from_slice(&hay[c2..]);
                println!("realised through the public API with patterns {:?}: replace_all_with -> {:?}, splice definition -> {:?}{}",
                    pats.iter().map(|p| String::from_utf8_lossy(p).to_string()).collect::<Vec<_>>(),
                    out.as_ref().map(|o| String::from_utf8_lossy(o).to_string()), String::from_utf8_lossy(&w2),
                    if out.as_ref().map_or(true, |o| *o != w2) { "  (differs)" } else { "" });
            }
        }
    }
    report("replace routine over the abstract searcher", &got.map(|g| String::from_utf8_lossy(&g).to_string()), &String::from_utf8_lossy(&want).to_string(), bad)
}

/// Native form of `pk_prim`. (1) function: for every needle length 0..=13, every
/// offset and every single-byte near miss, `is_prefix`/`is_prefix_raw` vs the
/// bytewise test. (2) memory: a child process repeats the calls with haystack
/// and needle placed flush against an inaccessible page; a fault there is an
/// out-of-bounds read.
fn replay_pk_prim() -> i32 {
    use aho_corasick::verif::packed::pattern as pp;
    let mut bad: Vec<String> = vec![];
    for pn in 0..=13usize {
        let needle: Vec<u8> = (0..pn).map(|i| b'a' + i as u8).collect();
        for from in 0..=2usize {
            for tail in 0..=2usize {
                let mut hay: Vec<u8> = vec![b'~'; from];
                hay.extend_from_slice(&needle);
                hay.extend(std::iter::repeat(b'#').take(tail));
                for flip in 0..=pn {
                    let mut h = hay.clone();
                    if flip < pn {
                        h[from + flip] ^= 0x40;
                    }
                    let want = flip == pn;
                    let (g1, g2) = (pp::prim_is_prefix(&h, from, &needle), pp::prim_is_prefix_raw(&h, from, &needle));
                    if (g1 != want || g2 != want) && bad.len() < 4 {
                        bad.push(format!("needle {:?} in {:?} at {}: is_prefix={} is_prefix_raw={} bytewise={}",
                            String::from_utf8_lossy(&needle), String::from_utf8_lossy(&h), from, g1, g2, want));
                    }
                }
            }
        }
    }
    if !bad.is_empty() {
        return report("packed verification primitives", &bad, &"bytewise prefix test", true);
    }
    let exe = std::env::current_exe().expect("own path");
    let st = std::process::Command::new(exe).arg("guardchild").status().expect("spawn guard child");
    if !st.success() {
        return report("packed verification primitives on guard-page-backed memory", &format!("child ended with {:?}", st), &"no access outside haystack/needle", true);
    }
    report("packed verification primitives", &"agree; no fault on guard-page-backed memory", &"bytewise prefix test", false)
}

/// Child of the `pk_teddy` memory replay: args = case line, len, off, pad.
pub fn guardteddy(args: &[String]) -> i32 {
    use aho_corasick::Span;
    extern "C" {
        fn mmap(addr: *mut u8, len: usize, prot: i32, flags: i32, fd: i32, off: i64) -> *mut u8;
        fn mprotect(addr: *mut u8, len: usize, prot: i32) -> i32;
    }
    const PAGE: usize = 4096;
    let spec = crate::parse_packed(&args[0]);
    let srch = crate::build_packed(&spec).expect("packed searcher");
    let pats: Vec<&[u8]> = spec.pats.iter().map(|p| &p[..]).collect();
    let (len, off, pad): (usize, usize, u8) = (args[1].parse().unwrap(), args[2].parse().unwrap(), args[3].parse::<usize>().unwrap() as u8);
    let mut alpha: Vec<u8> = vec![pad];
    for p in &spec.pats {
        for &b in p.iter() {
            if !alpha.contains(&b) && alpha.len() < 7 {
                alpha.push(b);
            }
        }
    }
    // span end (C10's pk_teddy_end: a span ending inside the haystack); the whole haystack otherwise
    let end: usize = args.get(4).map(|a| a.parse().unwrap()).unwrap_or(len);
    let w = 4usize.min(len - off);
    unsafe {
        let p = mmap(std::ptr::null_mut(), 3 * PAGE, 3, 0x22, -1, 0);
        assert!(!p.is_null() && p as isize != -1, "mmap failed");
        assert!(mprotect(p, PAGE, 0) == 0 && mprotect(p.add(2 * PAGE), PAGE, 0) == 0, "mprotect failed");
        let data = p.add(PAGE);
        for flush_end in [true, false] {
            let h = if flush_end { data.add(PAGE - len) } else { data };
            let mut idx = vec![0usize; w];
            loop {
                for i in 0..len {
                    *h.add(i) = pad;
                }
                for i in 0..w {
                    *h.add(off + i) = alpha[idx[i]];
                }
                let hay = std::slice::from_raw_parts(h, len);
                let got = tup(srch.find_in(hay, Span { start: 0, end }));
                let want = oracle::leftmost(&pats, hay, 0, end, spec.kind, false, false);
                if got != want {
                    println!("Teddy find_in: observed={:?} specified={:?} on {:?}", got, want, hay);
                    return 3;
                }
                let mut k = 0;
                while k < w {
                    idx[k] += 1;
                    if idx[k] < alpha.len() {
                        break;
                    }
                    idx[k] = 0;
                    k += 1;
                }
                if k == w {
                    break;
                }
            }
        }
    }
    0
}

/// Child of `replay_pk_prim`: haystack and needle flush against PROT_NONE pages.
pub fn guardchild() -> i32 {
    use aho_corasick::verif::packed::pattern as pp;
    extern "C" {
        fn mmap(addr: *mut u8, len: usize, prot: i32, flags: i32, fd: i32, off: i64) -> *mut u8;
        fn mprotect(addr: *mut u8, len: usize, prot: i32) -> i32;
    }
    const PAGE: usize = 4096;
    // [guard][data page][guard]
    unsafe fn region() -> *mut u8 {
        let p = mmap(std::ptr::null_mut(), 3 * PAGE, 3, 0x22, -1, 0);
        assert!(!p.is_null() && p as isize != -1, "mmap failed");
        assert!(mprotect(p, PAGE, 0) == 0 && mprotect(p.add(2 * PAGE), PAGE, 0) == 0, "mprotect failed");
        p.add(PAGE)
    }
    unsafe {
        let (hp, np) = (region(), region());
        for pn in 0..=13usize {
            for from in 0..=2usize {
                let hn = from + pn;
                for flush_end in [true, false] {
                    // flush against the following guard page, or against the preceding one
                    let h = if flush_end { hp.add(PAGE - hn) } else { hp };
                    let n = if flush_end { np.add(PAGE - pn) } else { np };
                    for i in 0..hn {
                        *h.add(i) = if i < from { b'~' } else { b'a' + (i - from) as u8 };
                    }
                    for i in 0..pn {
                        *n.add(i) = b'a' + i as u8;
                    }
                    let hay = std::slice::from_raw_parts(h, hn);
                    let needle = std::slice::from_raw_parts(n, pn);
                    if !pp::prim_is_prefix(hay, from, needle) || !pp::prim_is_prefix_raw(hay, from, needle) {
                        return 3;
                    }
                }
            }
        }
    }
    0
}

/// Native form of `ac_meta` / `ac_stream_init`: the top-level searcher's
/// getters vs the pattern list, every `Arc<dyn AcAutomaton>` forwarder vs the
/// direct call on the wrapped automaton (start states, all bytes, two steps),
/// and - where stream search is supported - a single-byte-read stream search
/// through the top-level searcher vs its in-memory iterator.
fn replay_ac_meta(rp: &Rp) -> i32 {
    use aho_corasick::automaton::Automaton;
    use aho_corasick::verif::ac as hk;
    let ac = rp.ac();
    let mut bad: Vec<String> = vec![];
    let np = rp.pats.len();
    if ac.patterns_len() != np {
        bad.push(format!("patterns_len {} != {}", ac.patterns_len(), np));
    }
    let (fnp, fmn, fmx, fmk, _pf) = hk::fwd_meta(&ac);
    if fnp != np || fmk != ac.match_kind() {
        bad.push("forwarded patterns_len / match_kind".into());
    }
    if np > 0 {
        let mn = rp.pats.iter().map(|p| p.len()).min().unwrap();
        let mx = rp.pats.iter().map(|p| p.len()).max().unwrap();
        if ac.min_pattern_len() != mn || fmn != mn {
            bad.push(format!("min_pattern_len: getter {} forwarder {} input {}", ac.min_pattern_len(), fmn, mn));
        }
        if ac.max_pattern_len() != mx || fmx != mx {
            bad.push(format!("max_pattern_len: getter {} forwarder {} input {}", ac.max_pattern_len(), fmx, mx));
        }
        for (i, p) in rp.pats.iter().enumerate() {
            if hk::fwd_pattern_len(&ac, aho_corasick::PatternID::new_unchecked(i)) != p.len() {
                bad.push(format!("forwarded pattern_len({})", i));
            }
        }
    }
    fn walk<A: Automaton>(ac: &AhoCorasick, a: &A, bad: &mut Vec<String>) {
        use aho_corasick::verif::ac as hk;
        for an in [Anchored::No, Anchored::Yes] {
            let (r1, r2) = (hk::fwd_start_state(ac, an), a.start_state(an));
            if r1.is_ok() != r2.is_ok() {
                bad.push(format!("forwarded start_state({:?}) Ok/Err differs", an));
                continue;
            }
            let (Ok(s1), Ok(s2)) = (r1, r2) else { continue };
            if s1 != s2 {
                bad.push("forwarded start_state".into());
                continue;
            }
            for b in 0..=255u8 {
                let (t1, t2) = (hk::fwd_next_state(ac, an, s1, b), a.next_state(an, s2, b));
                if t1 != t2 {
                    bad.push(format!("forwarded next_state on {:02x}", b));
                    return;
                }
                for c in 0..=255u8 {
                    let (u1, u2) = (hk::fwd_next_state(ac, an, t1, c), a.next_state(an, t2, c));
                    if u1 != u2 || hk::fwd_flags(ac, u1) != (a.is_special(u2), a.is_dead(u2), a.is_match(u2), a.is_start(u2)) {
                        bad.push(format!("forwarded next_state/flags on {:02x} {:02x}", b, c));
                        return;
                    }
                    if a.is_match(u2) {
                        if hk::fwd_match_len(ac, u1) != a.match_len(u2) {
                            bad.push("forwarded match_len".into());
                            return;
                        }
                        for k in 0..a.match_len(u2) {
                            if hk::fwd_match_pattern(ac, u1, k) != a.match_pattern(u2, k) {
                                bad.push("forwarded match_pattern".into());
                                return;
                            }
                        }
                    }
                }
            }
        }
    }
    if let Some(d) = hk::as_dfa(&ac) {
        walk(&ac, d, &mut bad);
    } else if let Some(c) = hk::as_cnfa(&ac) {
        walk(&ac, c, &mut bad);
    } else if let Some(n) = hk::as_nnfa(&ac) {
        walk(&ac, n, &mut bad);
    }
    // stream search through the top-level searcher, one byte per read
    struct OneByte<'a>(&'a [u8], usize);
    impl<'a> std::io::Read for OneByte<'a> {
        fn read(&mut self, buf: &mut [u8]) -> std::io::Result<usize> {
            if self.1 >= self.0.len() || buf.is_empty() {
                return Ok(0);
            }
            buf[0] = self.0[self.1];
            self.1 += 1;
            Ok(1)
        }
    }
    if rp.case.mk == 0 && rp.case.sk != 2 && rp.pats.iter().all(|p| !p.is_empty()) && np > 0 {
        // every pattern preceded and followed by filler, so that occurrences straddle refills
        let mut hay: Vec<u8> = vec![];
        for p in rp.pats.iter() {
            hay.extend_from_slice(b"~~~~~~~");
            hay.extend_from_slice(p);
        }
        hay.extend_from_slice(b"~~");
        aho_corasick::verif::buffer::set_spare_capacity(Some(1));
        let got: Vec<Option<M>> = match ac.try_stream_find_iter(OneByte(&hay, 0)) {
            Ok(it) => it.map(|r| r.ok().map(|m| (m.pattern().as_usize(), m.start(), m.end()))).collect(),
            Err(_) => vec![None],
        };
        aho_corasick::verif::buffer::set_spare_capacity(None);
        let want: Vec<Option<M>> = ac.find_iter(&hay).map(|m| Some((m.pattern().as_usize(), m.start(), m.end()))).collect();
        if got != want {
            bad.push(format!("stream search through the top-level searcher {:?} != find_iter {:?}", got, want));
        }
    }
    report("top-level getters / Arc<dyn> forwarders / stream through the wrapper", &bad, &"no difference", !bad.is_empty())
}

/// Native form of `sim_meta`: start states, `start_state` verdicts, dead
/// state and metadata of the three natively built automata.
fn replay_sim_meta(rp: &Rp) -> i32 {
    use aho_corasick::automaton::{Automaton, StateID};
    let b = crate::build(&rp.case);
    let n = aho_corasick::verif::ac::as_nnfa(&b.ac_n).unwrap();
    let c = aho_corasick::verif::ac::as_cnfa(&b.ac_c).unwrap();
    let d = aho_corasick::verif::ac::as_dfa(&b.ac_d).unwrap();
    let mut bad: Vec<String> = vec![];
    for (an, a) in [(false, Anchored::No), (true, Anchored::Yes)] {
        let supported = rp.case.sk == 0 || (rp.case.sk == 1 && !an) || (rp.case.sk == 2 && an);
        let rd = d.start_state(a);
        if rd.is_ok() != supported {
            bad.push(format!("DFA start_state(anchored={}) is_ok={} but the start kind supports it: {}", an, rd.is_ok(), supported));
        }
        let (sn, sc) = (n.start_state(a).unwrap(), c.start_state(a).unwrap());
        if n.is_match(sn) != c.is_match(sc) || n.is_special(sn) != c.is_special(sc) {
            bad.push(format!("start states (anchored={}) disagree between the NFAs", an));
        }
        if let Ok(sd) = rd {
            if n.is_match(sn) != d.is_match(sd) || n.is_special(sn) != d.is_special(sd) {
                bad.push(format!("start states (anchored={}) disagree between nnfa and dfa", an));
            }
        }
        let dead = StateID::new_unchecked(0);
        for byte in 0..=255u8 {
            if c.next_state(a, dead, byte) != dead || d.next_state(a, dead, byte) != dead {
                bad.push(format!("dead state not absorbing on byte {:02x}", byte));
                break;
            }
        }
    }
    let np = rp.pats.len();
    if n.patterns_len() != np || c.patterns_len() != np || d.patterns_len() != np {
        bad.push("patterns_len differs".into());
    }
    for (i, p) in rp.pats.iter().enumerate() {
        let pid = aho_corasick::PatternID::new_unchecked(i);
        if n.pattern_len(pid) != p.len() || c.pattern_len(pid) != p.len() || d.pattern_len(pid) != p.len() {
            bad.push(format!("pattern_len({}) differs", i));
        }
    }
    if np > 0 {
        let mn = rp.pats.iter().map(|p| p.len()).min().unwrap();
        let mx = rp.pats.iter().map(|p| p.len()).max().unwrap();
        for (nm, a, bb) in [("nnfa", n.min_pattern_len(), n.max_pattern_len()), ("cnfa", c.min_pattern_len(), c.max_pattern_len()), ("dfa", d.min_pattern_len(), d.max_pattern_len())] {
            if a != mn || bb != mx {
                bad.push(format!("{} min/max pattern length differs", nm));
            }
        }
    }
    report("start states / start_state verdicts / dead state / metadata", &bad, &"no difference", !bad.is_empty())
}

/// Native, exhaustive form of the textbook-automaton check: every state of
/// the natively built DFA (spelled by its breadth-first witness) and every
/// byte, plus every match list.
fn replay_std_struct(rp: &Rp) -> i32 {
    use aho_corasick::automaton::{Automaton, StateID};
    let b = crate::build(&rp.case);
    let n = aho_corasick::verif::ac::as_nnfa(&b.ac_n).unwrap();
    let c = aho_corasick::verif::ac::as_cnfa(&b.ac_c).unwrap();
    let d = aho_corasick::verif::ac::as_dfa(&b.ac_d).unwrap();
    let (rel, wit, _conf) = crate::product(n, c, d, Anchored::No);
    let pats = rp.prefs();
    let ci = rp.case.ci;
    let mut bad: Vec<String> = vec![];
    for (ns, (_cs, ds)) in rel.iter() {
        let w = &wit[ns];
        let sd = StateID::new_unchecked(*ds as usize);
        let mut want = vec![];
        let mut k = 0;
        while let Some(p) = oracle::nth_suffix_pattern(&pats, w, k, ci) {
            want.push(p);
            k += 1;
        }
        let got: Vec<usize> = if d.is_match(sd) { (0..d.match_len(sd)).map(|i| d.match_pattern(sd, i).as_usize()).collect() } else { vec![] };
        if got != want {
            bad.push(format!("state spelled {:?}: match list {:?}, definition {:?}", w, got, want));
        }
        for byte in 0..=255u8 {
            let t = d.next_state(Anchored::No, sd, byte);
            let kk = oracle::ac_suffix_len(&pats, w, byte, ci);
            let mut wb = w.clone();
            wb.push(byte);
            let suffix = &wb[wb.len() - kk..];
            let target = rel.iter().find(|(k2, _)| {
                let w2 = &wit[*k2];
                w2.len() == suffix.len() && w2.iter().zip(suffix).all(|(a, b)| if ci { oracle::lower(*a) == oracle::lower(*b) } else { a == b })
            });
            match target {
                None => bad.push(format!("state {:?} byte {:02x}: textbook successor {:?} missing", w, byte, suffix)),
                Some((_, (_, dt))) => {
                    if *dt != t.as_u32() {
                        bad.push(format!("state {:?} byte {:02x}: DFA goes to {} but the textbook automaton to {}", w, byte, t.as_u32(), dt));
                    }
                }
            }
        }
    }
    bad.truncate(3);
    report("DFA vs textbook Aho-Corasick automaton (all states x all bytes)", &bad, &"no difference", !bad.is_empty())
}

/// C13: run the public API call and classify Ok / Err / panic against the
/// configuration-only rejection rule.
fn replay_reject(rp: &Rp, hay: &[u8]) -> i32 {
    let an = rp.flag("anchored");
    let (sk, mk) = (rp.case.sk, rp.case.mk);
    let has_empty = rp.pats.iter().any(|p| p.is_empty());
    let ac = rp.ac();
    let (s, e) = match (rp.kv.get("s"), rp.kv.get("e")) {
        (Some(s), Some(e)) => (s.parse::<usize>().unwrap(), e.parse::<usize>().unwrap()),
        _ => (0, hay.len()),
    };
    let inp = || Input::new(hay).span(s..e).anchored(if an { Anchored::Yes } else { Anchored::No });
    let tmpl = rp.get("template").to_string();
    let api = rp.kv.get("api").cloned().unwrap_or_default();
    let a = (sk == 1 && an) || (sk == 2 && !an);
    let nonstd = mk != 0;
    let rule = |api: &str, an: bool| -> bool {
        let a = if api == "stream" || api == "replace" { sk == 2 } else { a };
        match api {
            "find" | "find_iter" | "is_match" | "replace" => a,
            "find_overlapping" => a || nonstd,
            "find_overlapping_iter" => a || nonstd || an,
            "stream" => a || nonstd || has_empty,
            _ => a,
        }
    };
    match tmpl.as_str() {
        "reject" => {
            let got_err = match api.as_str() {
                "find" => ac.try_find(inp()).is_err(),
                "find_iter" => ac.try_find_iter(inp()).is_err(),
                "find_overlapping" => {
                    let mut st = OverlappingState::start();
                    ac.try_find_overlapping(inp(), &mut st).is_err()
                }
                _ => ac.try_find_overlapping_iter(inp()).is_err(),
            };
            let want = rule(&api, an);
            report(&format!("try_{} is_err", api), &got_err, &want, got_err != want)
        }
        "reject_inf" => {
            let want_panic = rule(&api, an);
            let prev = std::panic::take_hook();
            std::panic::set_hook(Box::new(|_| {}));
            let r = std::panic::catch_unwind(std::panic::AssertUnwindSafe(|| match api.as_str() {
                "is_match" => {
                    ac.is_match(inp());
                }
                "find" => {
                    ac.find(inp());
                }
                "find_iter" => {
                    let mut it = ac.find_iter(inp());
                    it.next();
                }
                "find_overlapping" => {
                    let mut st = OverlappingState::start();
                    ac.find_overlapping(inp(), &mut st);
                }
                _ => {
                    let mut it = ac.find_overlapping_iter(inp());
                    it.next();
                }
            }));
            std::panic::set_hook(prev);
            let panicked = r.is_err();
            report(&format!("{} panics", api), &panicked, &want_panic, panicked != want_panic)
        }
        "reject_stream" => {
            let got_err = ac.try_stream_find_iter(hay).is_err();
            let want = rule("stream", false);
            report("try_stream_find_iter is_err", &got_err, &want, got_err != want)
        }
        _ => {
            let mut dst = vec![];
            let got_err = ac.try_replace_all_with_bytes(b"", &mut dst, |_, _, _| true).is_err();
            let want = rule("replace", false);
            report("try_replace_all_with_bytes is_err", &got_err, &want, got_err != want)
        }
    }
}

fn recipe<A: aho_corasick::automaton::Automaton>(aut: &A, haystack: &[u8]) -> Option<M> {
    use aho_corasick::MatchKind;
    let mut sid = aut.start_state(Anchored::No).unwrap();
    let mut at = 0;
    let mut mat = None;
    let get_match = |sid, at: usize| {
        let pid = aut.match_pattern(sid, 0);
        let len = aut.pattern_len(pid);
        (pid.as_usize(), at - len, at)
    };
    if aut.is_match(sid) {
        mat = Some(get_match(sid, at));
        if matches!(aut.match_kind(), MatchKind::Standard) {
            return mat;
        }
    }
    while at < haystack.len() {
        sid = aut.next_state(Anchored::No, sid, haystack[at]);
        if aut.is_special(sid) {
            if aut.is_dead(sid) {
                return mat;
            } else if aut.is_match(sid) {
                mat = Some(get_match(sid, at + 1));
                if matches!(aut.match_kind(), MatchKind::Standard) {
                    return mat;
                }
            }
        }
        at += 1;
    }
    mat
}

/// Replay of a simulation-step counterexample: rebuild the three automata
/// with the real builders, recompute the relation with the native product
/// walk, and re-check the rows lo..hi with the solver's bytes.
fn replay_sim(rp: &Rp) -> i32 {
    use aho_corasick::automaton::{Automaton, StateID};
    let b = crate::build(&rp.case);
    let n = aho_corasick::verif::ac::as_nnfa(&b.ac_n).unwrap();
    let c = aho_corasick::verif::ac::as_cnfa(&b.ac_c).unwrap();
    let d = aho_corasick::verif::ac::as_dfa(&b.ac_d).unwrap();
    let pair = rp.get("pair").to_string();
    let sid = |x: u32| StateID::new_unchecked(x as usize);
    let mut bad = vec![];
    for part in rp.get("parts").split(';') {
        let f: Vec<usize> = part.split(':').map(|v| v.parse().unwrap()).collect();
        let (ani, lo, hi) = (f[0], f[1], f[2]);
        let an = if ani == 1 { Anchored::Yes } else { Anchored::No };
        let (rel, _wit, conflicts) = crate::product(n, c, d, an);
        if !conflicts.is_empty() {
            println!("native product walk finds conflicting partners: {:?} -> VIOLATION REPRODUCES", &conflicts[..1]);
            return 1;
        }
        let rows: Vec<(u32, u32, u32)> = rel.iter().map(|(k, (x, y))| (*k, *x, *y)).collect();
        // exhaustive over the bytes: the solver's byte is one of them
        for (i, byte) in (lo..hi.min(rows.len())).flat_map(|i| (0..=255u8).map(move |b| (i, b))) {
            let (rn, rc, rd) = rows[i];
            let tn = n.next_state(an, sid(rn), byte);
            let tc = c.next_state(an, sid(rc), byte);
            let td = if rd != u32::MAX { Some(d.next_state(an, sid(rd), byte)) } else { None };
            let partner = rel.get(&tn.as_u32());
            let obs = |what: &str, x: String, y: String, bad: &mut Vec<String>| {
                if x != y {
                    bad.push(format!("anchored={} row {} byte {:02x}: {} differs: {} vs {}", ani, i, byte, what, x, y));
                }
            };
            match partner {
                None => bad.push(format!("row {} byte {:02x}: successor {:?} outside the relation", i, byte, tn)),
                Some(&(pc, pd)) => {
                    if pair != "nd" {
                        obs("cnfa successor", format!("{}", pc), format!("{}", tc.as_u32()), &mut bad);
                    }
                    if let Some(td) = td {
                        if pair != "nc" {
                            obs("dfa successor", format!("{}", pd), format!("{}", td.as_u32()), &mut bad);
                        }
                    }
                }
            }
            obs("is_match n/c", format!("{}", n.is_match(tn)), format!("{}", c.is_match(tc)), &mut bad);
            obs("is_special n/c", format!("{}", n.is_special(tn)), format!("{}", c.is_special(tc)), &mut bad);
            obs("is_dead n/c", format!("{}", n.is_dead(tn)), format!("{}", c.is_dead(tc)), &mut bad);
            if let Some(td) = td {
                obs("is_match n/d", format!("{}", n.is_match(tn)), format!("{}", d.is_match(td)), &mut bad);
                obs("is_special n/d", format!("{}", n.is_special(tn)), format!("{}", d.is_special(td)), &mut bad);
                obs("is_dead n/d", format!("{}", n.is_dead(tn)), format!("{}", d.is_dead(td)), &mut bad);
                if !n.is_dead(tn) {
                    obs("is_start n/d", format!("{}", n.is_start(tn)), format!("{}", d.is_start(td)), &mut bad);
                }
            }
            if n.is_match(tn) && c.is_match(tc) {
                let (ln, lc) = (n.match_len(tn), c.match_len(tc));
                obs("match_len n/c", format!("{}", ln), format!("{}", lc), &mut bad);
                if ln == 0 {
                    bad.push(format!("row {}: match state without a pattern", i));
                }
                for kk in 0..ln.min(lc) {
                    obs("match_pattern n/c", format!("{:?}", n.match_pattern(tn, kk)), format!("{:?}", c.match_pattern(tc, kk)), &mut bad);
                    if n.match_pattern(tn, kk).as_usize() >= rp.pats.len() {
                        bad.push(format!("row {}: invalid pattern id", i));
                    }
                }
                if let Some(td) = td {
                    if d.is_match(td) {
                        let ld = d.match_len(td);
                        obs("match_len n/d", format!("{}", ln), format!("{}", ld), &mut bad);
                        for kk in 0..ln.min(ld) {
                            obs("match_pattern n/d", format!("{:?}", n.match_pattern(tn, kk)), format!("{:?}", d.match_pattern(td, kk)), &mut bad);
                        }
                    }
                }
            }
            for (nm, is_dead, is_match, is_special, is_start) in [
                ("nnfa", n.is_dead(tn), n.is_match(tn), n.is_special(tn), n.is_start(tn)),
                ("cnfa", c.is_dead(tc), c.is_match(tc), c.is_special(tc), c.is_start(tc)),
            ] {
                if (is_dead || is_match) && !is_special {
                    bad.push(format!("row {}: {} dead/match state not special", i, nm));
                }
                if is_special && !(is_dead || is_match || is_start) {
                    bad.push(format!("row {}: {} special state is neither dead, match nor start", i, nm));
                }
            }
            if n.is_dead(sid(rn)) && !(n.is_dead(tn) && c.is_dead(tc)) {
                bad.push(format!("row {}: dead state not absorbing", i));
            }
        }
    }
    bad.truncate(4);
    report("simulation step on the natively built automata (rows x all bytes)", &bad, &"no difference", !bad.is_empty())
}

/// Oracle self-test: rows `mk|ci|overlapping|anchored|hexpat,..|hexhay|pid:s:e,..` taken
/// from the crate's own test table; the oracle's iterator must reproduce the
/// expected matches of every row.
pub fn selftest(path: &str) -> i32 {
    let text = std::fs::read_to_string(path).expect("table");
    let mut bad = 0;
    let mut n = 0;
    for line in text.lines() {
        let f: Vec<&str> = line.split('|').collect();
        if f.len() != 7 {
            continue;
        }
        let mk: u8 = f[0].parse().unwrap();
        let ci = f[1] == "1";
        let overlapping = f[2] == "1";
        let an = f[3] == "1";
        let pats: Vec<Vec<u8>> = if f[4].is_empty() { vec![] } else { f[4].split(',').map(unhex).collect() };
        let prefs: Vec<&[u8]> = pats.iter().map(|p| &p[..]).collect();
        let hay = if f[5].is_empty() { vec![] } else { unhex(f[5]) };
        let mut want: Vec<M> = vec![];
        if !f[6].is_empty() {
            for t in f[6].split(',') {
                let x: Vec<usize> = t.split(':').map(|v| v.parse().unwrap()).collect();
                want.push((x[0], x[1], x[2]));
            }
        }
        let e = hay.len();
        let mut got = vec![];
        if overlapping {
            for end in 0..=e {
                let c = oracle::count_ending_at(&prefs, &hay, 0, e, end, an, ci);
                for k in 0..c {
                    got.push(oracle::nth_ending_at(&prefs, &hay, 0, e, end, k, an, ci).unwrap());
                }
            }
        } else {
            let (mut pos, mut last) = (0, None);
            while let Some(m) = oracle::iter_next(&prefs, &hay, pos, e, last, mk, an, ci) {
                got.push(m);
                pos = m.2;
                last = Some(m.2);
            }
        }
        n += 1;
        if got != want {
            bad += 1;
            println!("oracle disagrees with the crate's test row: {}\n  oracle: {:?}", line, got);
        }
    }
    println!("oracle selftest: {} rows, {} disagreements", n, bad);
    if bad > 0 || n == 0 {
        1
    } else {
        0
    }
}
