//! Native replay of solver counterexamples through the crate's *public* API:
//! the searcher is built from the pattern list with the real builder, the
//! call is executed, and the observation is compared with the specification.
//!
//! Replay file: `key=value` lines. Exit status: 1 = the violation reproduces,
//! 0 = it does not (observed == specified), 2 = cannot replay.
use crate::oracle::{self, M};
use crate::{builder, parse_case, unhex, CaseSpec};
use aho_corasick::{
    automaton::OverlappingState, AhoCorasick, AhoCorasickKind, Anchored, Input,
    Match,
};
use std::collections::BTreeMap;

fn kind_of(s: &str) -> Option<AhoCorasickKind> {
    match s {
        "nnfa" => Some(AhoCorasickKind::NoncontiguousNFA),
        "cnfa" => Some(AhoCorasickKind::ContiguousNFA),
        "dfa" => Some(AhoCorasickKind::DFA),
        _ => None,
    }
}

fn tup(m: Option<Match>) -> Option<M> {
    m.map(|m| (m.pattern().as_usize(), m.start(), m.end()))
}

pub struct Rp {
    pub kv: BTreeMap<String, String>,
    pub case: CaseSpec,
    pub pats: Vec<Vec<u8>>,
}

impl Rp {
    pub fn get(&self, k: &str) -> &str {
        self.kv.get(k).map(|s| s.as_str()).unwrap_or_else(|| panic!("replay file lacks {}", k))
    }
    pub fn usize(&self, k: &str) -> usize {
        self.get(k).parse().unwrap()
    }
    pub fn flag(&self, k: &str) -> bool {
        self.kv.get(k).map_or(false, |v| v == "1" || v == "true")
    }
    pub fn bytes(&self, k: &str) -> Vec<u8> {
        unhex(self.get(k))
    }
    pub fn ac(&self) -> AhoCorasick {
        let mut b = builder(&self.case);
        b.kind(kind_of(self.kv.get("kind").map(|s| s.as_str()).unwrap_or("auto")));
        b.build(&self.pats).expect("build")
    }
    pub fn prefs(&self) -> Vec<&[u8]> {
        self.pats.iter().map(|p| &p[..]).collect()
    }
}

fn report(what: &str, got: &dyn std::fmt::Debug, want: &dyn std::fmt::Debug, bad: bool) -> i32 {
    println!("{}: observed={:?} specified={:?} -> {}", what, got, want, if bad { "VIOLATION REPRODUCES" } else { "agrees" });
    bad as i32
}

pub fn replay(path: &str) -> i32 {
    let text = match std::fs::read_to_string(path) {
        Ok(t) => t,
        Err(e) => {
            eprintln!("cannot read {}: {}", path, e);
            return 2;
        }
    };
    let mut kv = BTreeMap::new();
    for line in text.lines() {
        if let Some(i) = line.find('=') {
            kv.insert(line[..i].trim().to_string(), line[i + 1..].trim().to_string());
        }
    }
    let case = parse_case(kv.get("case").expect("case"));
    let pats = case.pats.clone();
    let rp = Rp { kv, case, pats };
    let r = std::panic::catch_unwind(std::panic::AssertUnwindSafe(|| run(&rp)));
    match r {
        Ok(code) => code,
        Err(_) => {
            println!("replay panicked inside the crate -> VIOLATION REPRODUCES (panic)");
            1
        }
    }
}

fn input<'h>(rp: &Rp, hay: &'h [u8], s: usize, e: usize) -> Input<'h> {
    Input::new(hay)
        .span(s..e)
        .anchored(if rp.flag("anchored") { Anchored::Yes } else { Anchored::No })
        .earliest(rp.flag("earliest"))
}

fn run(rp: &Rp) -> i32 {
    let hay = rp.kv.get("hay").map(|h| unhex(h)).unwrap_or_default();
    let pats = rp.prefs();
    let (mk, ci, an) = (rp.case.mk, rp.case.ci, rp.flag("anchored"));
    match rp.get("template") {
        "find" => {
            let (s, e) = (rp.usize("s"), rp.usize("e"));
            let ac = rp.ac();
            let got = tup(ac.try_find(input(rp, &hay, s, e)).expect("try_find"));
            let want = oracle::find(&pats, &hay, s, e, mk, an, ci);
            report("find", &got, &want, got != want)
        }
        "iter2" => {
            let (s, e) = (rp.usize("s"), rp.usize("e"));
            let ac = rp.ac();
            let got: Vec<M> = ac
                .try_find_iter(input(rp, &hay, s, e))
                .expect("try_find_iter")
                .map(|m| (m.pattern().as_usize(), m.start(), m.end()))
                .collect();
            let mut want = vec![];
            let (mut pos, mut last) = (s, None);
            while let Some(m) = oracle::iter_next(&pats, &hay, pos, e, last, mk, an, ci) {
                want.push(m);
                pos = m.2;
                last = Some(m.2);
            }
            report("find_iter", &got, &want, got != want)
        }
        "overlapping" => {
            let (s, e) = (rp.usize("s"), rp.usize("e"));
            let ac = rp.ac();
            let mut st = OverlappingState::start();
            let mut got: Vec<M> = vec![];
            let mut extra_after_none = false;
            let mut seen_none = false;
            for _ in 0..(hay.len() + 2) * (pats.len() + 1) + 4 {
                ac.try_find_overlapping(input(rp, &hay, s, e), &mut st).expect("try_find_overlapping");
                match tup(st.get_match()) {
                    Some(m) => {
                        if seen_none {
                            extra_after_none = true;
                        }
                        got.push(m)
                    }
                    None => seen_none = true,
                }
            }
            let mut want = vec![];
            for end in s..=e {
                let n = oracle::count_ending_at(&pats, &hay, s, e, end, an, ci);
                for k in 0..n {
                    want.push(oracle::nth_ending_at(&pats, &hay, s, e, end, k, an, ci).unwrap());
                }
            }
            report("overlapping stepping", &got, &want, got != want || extra_after_none)
        }
        "is_match" => {
            let (s, e) = (rp.usize("s"), rp.usize("e"));
            let ac = rp.ac();
            let got = ac.try_find(input(rp, &hay, s, e).earliest(true)).expect("try_find").is_some();
            let want = oracle::exists(&pats, &hay, s, e, an, ci);
            report("is_match", &got, &want, got != want)
        }
        t => {
            eprintln!("no native replay for template {}", t);
            2
        }
    }
}

/// Oracle self-test: rows `mk|ci|overlapping|anchored|hexpat,..|hexhay|pid:s:e,..` taken
/// from the crate's own test table; the oracle's iterator must reproduce the
/// expected matches of every row.
pub fn selftest(path: &str) -> i32 {
    let text = std::fs::read_to_string(path).expect("table");
    let mut bad = 0;
    let mut n = 0;
    for line in text.lines() {
        let f: Vec<&str> = line.split('|').collect();
        if f.len() != 7 {
            continue;
        }
        let mk: u8 = f[0].parse().unwrap();
        let ci = f[1] == "1";
        let overlapping = f[2] == "1";
        let an = f[3] == "1";
        let pats: Vec<Vec<u8>> = if f[4].is_empty() { vec![] } else { f[4].split(',').map(unhex).collect() };
        let prefs: Vec<&[u8]> = pats.iter().map(|p| &p[..]).collect();
        let hay = if f[5].is_empty() { vec![] } else { unhex(f[5]) };
        let mut want: Vec<M> = vec![];
        if !f[6].is_empty() {
            for t in f[6].split(',') {
                let x: Vec<usize> = t.split(':').map(|v| v.parse().unwrap()).collect();
                want.push((x[0], x[1], x[2]));
            }
        }
        let e = hay.len();
        let mut got = vec![];
        if overlapping {
            for end in 0..=e {
                let c = oracle::count_ending_at(&prefs, &hay, 0, e, end, an, ci);
                for k in 0..c {
                    got.push(oracle::nth_ending_at(&prefs, &hay, 0, e, end, k, an, ci).unwrap());
                }
            }
        } else {
            let (mut pos, mut last) = (0, None);
            while let Some(m) = oracle::iter_next(&prefs, &hay, pos, e, last, mk, an, ci) {
                got.push(m);
                pos = m.2;
                last = Some(m.2);
            }
        }
        n += 1;
        if got != want {
            bad += 1;
            println!("oracle disagrees with the crate's test row: {}\n  oracle: {:?}", line, got);
        }
    }
    println!("oracle selftest: {} rows, {} disagreements", n, bad);
    if bad > 0 || n == 0 {
        1
    } else {
        0
    }
}
