//! vdump: phase A of the pipeline (see DESIGN.md section 1.2).
//!
//! Builds every catalogue case with the crate's real builders (natively, from
//! /repo's working tree, hooks on), serialises the private representation of
//! the resulting automata as Rust statics for the Kani harness crate, checks
//! that the loop-free reconstruction is faithful, and proposes the state
//! correspondence for the simulation harnesses.
//!
//! Subcommands:
//!   gen <cases.txt> <out.rs> <facts.json>
//!   replay <file>            (native replay of a counterexample)
//!   selftest <table.txt>     (oracles vs rows of the crate's own test table)

#[path = "../../harness/src/oracle.rs"]
mod oracle;
mod replay;
#[path = "../../harness/src/stubs.rs"]
mod stubs;
#[path = "../../memchr-model/src/lib.rs"]
#[allow(dead_code)]
mod memchr_model;

use aho_corasick::{
    automaton::Automaton,
    dfa::DFA,
    nfa::{contiguous, noncontiguous},
    verif, AhoCorasick, AhoCorasickBuilder, AhoCorasickKind, Anchored,
    MatchKind, StartKind,
};
use std::collections::BTreeMap;
use std::fmt::Write as _;

#[derive(Clone, Debug)]
pub struct CaseSpec {
    pub name: String,
    pub mk: u8,
    pub ci: bool,
    pub pf: bool,
    pub dd: Option<usize>,
    pub bc: bool,
    pub sk: u8, // 0 both, 1 unanchored, 2 anchored
    pub pats: Vec<Vec<u8>>,
}

pub fn unhex(s: &str) -> Vec<u8> {
    if s == "e" {
        return vec![];
    }
    assert!(s.len() % 2 == 0, "bad hex {:?}", s);
    (0..s.len() / 2)
        .map(|i| u8::from_str_radix(&s[2 * i..2 * i + 2], 16).unwrap())
        .collect()
}

pub fn parse_case(line: &str) -> CaseSpec {
    let f: Vec<&str> = line.split_whitespace().collect();
    assert!(f.len() == 8, "bad case line: {}", line);
    let mk = match f[1] {
        "std" => 0,
        "lf" => 1,
        "ll" => 2,
        x => panic!("bad mk {}", x),
    };
    let sk = match f[6] {
        "both" => 0,
        "un" => 1,
        "an" => 2,
        x => panic!("bad sk {}", x),
    };
    let pats = if f[7] == "-" {
        vec![]
    } else {
        f[7].split(',').map(unhex).collect()
    };
    CaseSpec {
        name: f[0].to_string(),
        mk,
        ci: f[2] == "1",
        pf: f[3] == "1",
        dd: if f[4] == "default" { None } else { Some(f[4].parse().unwrap()) },
        bc: f[5] == "1",
        sk,
        pats,
    }
}

pub fn mk_of(k: u8) -> MatchKind {
    match k {
        0 => MatchKind::Standard,
        1 => MatchKind::LeftmostFirst,
        _ => MatchKind::LeftmostLongest,
    }
}

pub fn sk_of(k: u8) -> StartKind {
    match k {
        0 => StartKind::Both,
        1 => StartKind::Unanchored,
        _ => StartKind::Anchored,
    }
}

pub fn builder(c: &CaseSpec) -> AhoCorasickBuilder {
    let mut b = AhoCorasickBuilder::new();
    b.match_kind(mk_of(c.mk))
        .ascii_case_insensitive(c.ci)
        .prefilter(c.pf)
        .byte_classes(c.bc)
        .start_kind(sk_of(c.sk));
    if let Some(d) = c.dd {
        b.dense_depth(d);
    }
    b
}

pub struct Built {
    pub ac_n: AhoCorasick,
    pub ac_c: AhoCorasick,
    pub ac_d: AhoCorasick,
    pub ac_auto: AhoCorasick,
}

pub fn build(c: &CaseSpec) -> Built {
    let mk = |k: Option<AhoCorasickKind>| {
        let mut b = builder(c);
        b.kind(k);
        b.build(&c.pats).unwrap_or_else(|e| {
            panic!("case {}: build failed: {}", c.name, e)
        })
    };
    Built {
        ac_n: mk(Some(AhoCorasickKind::NoncontiguousNFA)),
        ac_c: mk(Some(AhoCorasickKind::ContiguousNFA)),
        ac_d: mk(Some(AhoCorasickKind::DFA)),
        ac_auto: mk(None),
    }
}

fn arr<T: std::fmt::Debug>(v: &[T]) -> String {
    format!("{:?}", v)
}

/// Walk the product of the three automata from their start states.
/// Returns nnfa-state -> (cnfa-state, dfa-state or MAX), a BFS witness string
/// per nnfa state, and the list of inconsistencies found.
pub fn product(
    n: &noncontiguous::NFA,
    c: &contiguous::NFA,
    d: &DFA,
    anch: Anchored,
) -> (BTreeMap<u32, (u32, u32)>, BTreeMap<u32, Vec<u8>>, Vec<String>) {
    let mut bad = vec![];
    let sn = n.start_state(anch).unwrap();
    let sc = c.start_state(anch).unwrap();
    let sd = d.start_state(anch).ok();
    let none = u32::MAX;
    let mut seen: BTreeMap<u32, (u32, u32)> = BTreeMap::new();
    let mut wit: BTreeMap<u32, Vec<u8>> = BTreeMap::new();
    let mut q = std::collections::VecDeque::new();
    seen.insert(sn.as_u32(), (sc.as_u32(), sd.map_or(none, |s| s.as_u32())));
    wit.insert(sn.as_u32(), vec![]);
    q.push_back((sn, sc, sd));
    while let Some((a, b, dd)) = q.pop_front() {
        for byte in 0..=255u8 {
            let na = n.next_state(anch, a, byte);
            let nb = c.next_state(anch, b, byte);
            let nd = dd.map(|x| d.next_state(anch, x, byte));
            let ndu = nd.map_or(none, |s| s.as_u32());
            match seen.get(&na.as_u32()) {
                None => {
                    seen.insert(na.as_u32(), (nb.as_u32(), ndu));
                    let mut w = wit[&a.as_u32()].clone();
                    w.push(byte);
                    wit.insert(na.as_u32(), w);
                    q.push_back((na, nb, nd));
                }
                Some(&(x, y)) => {
                    if x != nb.as_u32() || y != ndu {
                        bad.push(format!(
                            "anchored={:?}: nnfa state {} reached with partners ({},{}) and ({},{}) via {:?}+{:02x}",
                            anch, na.as_u32(), x, y, nb.as_u32(), ndu, wit[&a.as_u32()], byte
                        ));
                    }
                }
            }
        }
    }
    (seen, wit, bad)
}

fn leak<T>(v: Vec<T>) -> &'static [T] {
    Box::leak(v.into_boxed_slice())
}

/// Natively rebuild each automaton through the loop-free hook and compare it
/// with the original on every (state, byte, anchoring) and observation.
fn fidelity(
    name: &str,
    n: &noncontiguous::NFA,
    c: &contiguous::NFA,
    d: &DFA,
) -> Vec<String> {
    let mut bad = vec![];
    // DFA
    let r = verif::dfa::to_raw(d);
    let rows: Vec<Vec<aho_corasick::PatternID>> =
        r.matches.iter().map(|m| verif::dfa::row(leak(m.clone()))).collect();
    let d2 = verif::dfa::from_parts(
        leak(r.trans.clone()),
        rows,
        leak(r.pattern_lens.clone()),
        r.match_kind,
        r.state_len,
        r.alphabet_len,
        r.stride2,
        Box::leak(Box::new(r.byte_classes)),
        r.min_pattern_len,
        r.max_pattern_len,
        r.special,
    );
    let r2 = verif::dfa::to_raw(&d2);
    if format!("{:?}", (&r.trans, &r.matches, &r.pattern_lens, r.special, r.stride2, r.alphabet_len, r.state_len))
        != format!("{:?}", (&r2.trans, &r2.matches, &r2.pattern_lens, r2.special, r2.stride2, r2.alphabet_len, r2.state_len))
    {
        bad.push(format!("{}: dfa dump(rebuild(dump)) differs", name));
    }
    for i in 0..r.state_len {
        if i == 1 {
            continue; // index 1 is the unused FAIL placeholder row
        }
        let sid = aho_corasick::automaton::StateID::new_unchecked(i << r.stride2);
        for b in 0..=255u8 {
            if d.next_state(Anchored::No, sid, b) != d2.next_state(Anchored::No, sid, b) {
                bad.push(format!("{}: dfa rebuild next_state differs", name));
            }
        }
        if d.is_match(sid) != d2.is_match(sid) || d.is_special(sid) != d2.is_special(sid) {
            bad.push(format!("{}: dfa rebuild class differs", name));
        }
        if d.is_match(sid) {
            if d.match_len(sid) != d2.match_len(sid) {
                bad.push(format!("{}: dfa rebuild match_len differs", name));
            } else {
                for k in 0..d.match_len(sid) {
                    if d.match_pattern(sid, k) != d2.match_pattern(sid, k) {
                        bad.push(format!("{}: dfa rebuild match_pattern differs", name));
                    }
                }
            }
        }
    }
    std::mem::forget(d2);
    // contiguous NFA
    let r = verif::cnfa::to_raw(c);
    let c2 = verif::cnfa::from_parts(
        leak(r.repr.clone()),
        leak(r.pattern_lens.clone()),
        r.state_len,
        r.match_kind,
        r.alphabet_len,
        Box::leak(Box::new(r.byte_classes)),
        r.min_pattern_len,
        r.max_pattern_len,
        r.special,
    );
    for (sid, _, _, _) in verif::cnfa::state_table(c) {
        let sid = aho_corasick::automaton::StateID::new_unchecked(sid as usize);
        for b in 0..=255u8 {
            for a in [Anchored::No, Anchored::Yes] {
                if c.next_state(a, sid, b) != c2.next_state(a, sid, b) {
                    bad.push(format!("{}: cnfa rebuild next_state differs", name));
                }
            }
        }
    }
    if verif::cnfa::to_raw(&c2).repr != r.repr {
        bad.push(format!("{}: cnfa dump(rebuild(dump)) differs", name));
    }
    std::mem::forget(c2);
    // noncontiguous NFA
    let r = verif::nnfa::to_raw(n);
    let st: Vec<verif::nnfa::VState> = r.states.iter().map(|a| verif::nnfa::state(*a)).collect();
    let sp: Vec<verif::nnfa::VTransition> = r.sparse.iter().map(|a| verif::nnfa::transition(*a)).collect();
    let ma: Vec<verif::nnfa::VMatch> = r.matches.iter().map(|a| verif::nnfa::mat(*a)).collect();
    let n2 = verif::nnfa::from_parts(
        leak(st),
        leak(sp),
        leak(r.dense.clone()),
        leak(ma),
        leak(r.pattern_lens.clone()),
        r.match_kind,
        Box::leak(Box::new(r.byte_classes)),
        r.min_pattern_len,
        r.max_pattern_len,
        r.special,
    );
    for i in 0..r.states.len() {
        let sid = aho_corasick::automaton::StateID::new_unchecked(i);
        if i == 1 {
            continue; // FAIL sentinel is not a state of the Automaton API
        }
        for b in 0..=255u8 {
            for a in [Anchored::No, Anchored::Yes] {
                if n.next_state(a, sid, b) != n2.next_state(a, sid, b) {
                    bad.push(format!("{}: nnfa rebuild next_state differs", name));
                }
            }
        }
        if n.is_match(sid) {
            if n.match_len(sid) != n2.match_len(sid) {
                bad.push(format!("{}: nnfa rebuild match_len differs", name));
            }
        }
    }
    let r2 = verif::nnfa::to_raw(&n2);
    if r2.states != r.states || r2.sparse != r.sparse || r2.matches != r.matches || r2.dense != r.dense {
        bad.push(format!("{}: nnfa dump(rebuild(dump)) differs", name));
    }
    std::mem::forget(n2);
    bad
}

fn json_str(s: &str) -> String {
    let mut o = String::from("\"");
    for ch in s.chars() {
        match ch {
            '"' => o.push_str("\\\""),
            '\\' => o.push_str("\\\\"),
            '\n' => o.push_str("\\n"),
            c if (c as u32) < 0x20 => write!(o, "\\u{:04x}", c as u32).unwrap(),
            c => o.push(c),
        }
    }
    o.push('"');
    o
}

fn hex(p: &[u8]) -> String {
    if p.is_empty() {
        "e".to_string()
    } else {
        p.iter().map(|b| format!("{:02x}", b)).collect()
    }
}

fn gen(cases_path: &str, out_rs: &str, out_facts: &str) {
    let text = std::fs::read_to_string(cases_path).unwrap();
    let mut rs = String::new();
    let mut facts = String::from("{\n");
    let mut first = true;
    writeln!(rs, "// @generated by vdump from /repo's working tree. Do not edit.").unwrap();
    writeln!(rs, "#![allow(unused, non_camel_case_types, clippy::all)]").unwrap();
    for line in text.lines() {
        let line = line.trim();
        if line.is_empty() || line.starts_with('#') {
            continue;
        }
        if line.starts_with("packed ") {
            if !first {
                facts.push_str(",\n");
            }
            first = false;
            gen_packed(line, &mut rs, &mut facts);
            continue;
        }
        let spec = parse_case(line);
        let b = build(&spec);
        let n = verif::ac::as_nnfa(&b.ac_n).expect("nnfa kind not honoured");
        let c = verif::ac::as_cnfa(&b.ac_c).expect("cnfa kind not honoured");
        let d = verif::ac::as_dfa(&b.ac_d).expect("dfa kind not honoured");
        let mut problems: Vec<String> = vec![];
        // metadata assertions (concrete; C20 is not claimed, but a wrong
        // value here would invalidate the harness assumptions)
        for (k, ac) in [("nnfa", &b.ac_n), ("cnfa", &b.ac_c), ("dfa", &b.ac_d), ("auto", &b.ac_auto)] {
            if ac.patterns_len() != spec.pats.len() {
                problems.push(format!("{}: patterns_len {} != {}", k, ac.patterns_len(), spec.pats.len()));
            }
            if ac.match_kind() != mk_of(spec.mk) {
                problems.push(format!("{}: match_kind differs", k));
            }
            if ac.start_kind() != sk_of(spec.sk) {
                problems.push(format!("{}: start_kind differs", k));
            }
            if !spec.pats.is_empty() {
                let mn = spec.pats.iter().map(|p| p.len()).min().unwrap();
                let mx = spec.pats.iter().map(|p| p.len()).max().unwrap();
                if ac.min_pattern_len() != mn || ac.max_pattern_len() != mx {
                    problems.push(format!("{}: min/max pattern len differs", k));
                }
            }
        }
        for (i, p) in spec.pats.iter().enumerate() {
            let pid = aho_corasick::PatternID::new_unchecked(i);
            if n.pattern_len(pid) != p.len() || c.pattern_len(pid) != p.len() || d.pattern_len(pid) != p.len() {
                problems.push(format!("pattern_len({}) differs", i));
            }
        }
        // automatic kind: compare table-for-table with the explicit one
        let auto_kind = verif::ac::kind_to_u8(b.ac_auto.kind());
        let auto_equal = match auto_kind {
            0 => verif::ac::as_nnfa(&b.ac_auto).map_or(false, |x| {
                let (a, bb) = (verif::nnfa::to_raw(x), verif::nnfa::to_raw(n));
                a.states == bb.states && a.sparse == bb.sparse && a.dense == bb.dense && a.matches == bb.matches && a.special == bb.special
            }),
            1 => verif::ac::as_cnfa(&b.ac_auto).map_or(false, |x| {
                let (a, bb) = (verif::cnfa::to_raw(x), verif::cnfa::to_raw(c));
                a.repr == bb.repr && a.special == bb.special && a.byte_classes == bb.byte_classes
            }),
            _ => verif::ac::as_dfa(&b.ac_auto).map_or(false, |x| {
                let (a, bb) = (verif::dfa::to_raw(x), verif::dfa::to_raw(d));
                a.trans == bb.trans && a.matches == bb.matches && a.special == bb.special && a.byte_classes == bb.byte_classes
            }),
        };
        if !auto_equal {
            problems.push(format!("automatic kind {} differs from the explicitly built one", auto_kind));
        }
        // low-level builders must produce the same tables as the top level
        {
            let mut nb = noncontiguous::Builder::new();
            nb.match_kind(mk_of(spec.mk)).ascii_case_insensitive(spec.ci).prefilter(spec.pf);
            if let Some(dd) = spec.dd { nb.dense_depth(dd); }
            let n_low = nb.build(&spec.pats).unwrap();
            let (a, bb) = (verif::nnfa::to_raw(&n_low), verif::nnfa::to_raw(n));
            if !(a.states == bb.states && a.sparse == bb.sparse && a.dense == bb.dense && a.matches == bb.matches && a.special == bb.special) {
                problems.push("low-level noncontiguous builder differs from top-level".into());
            }
            let mut cb = contiguous::Builder::new();
            cb.match_kind(mk_of(spec.mk)).ascii_case_insensitive(spec.ci).prefilter(spec.pf).byte_classes(spec.bc);
            if let Some(dd) = spec.dd { cb.dense_depth(dd); }
            let c_low = cb.build(&spec.pats).unwrap();
            if verif::cnfa::to_raw(&c_low).repr != verif::cnfa::to_raw(c).repr {
                problems.push("low-level contiguous builder differs from top-level".into());
            }
            let mut db = aho_corasick::dfa::Builder::new();
            db.match_kind(mk_of(spec.mk)).ascii_case_insensitive(spec.ci).prefilter(spec.pf).byte_classes(spec.bc).start_kind(sk_of(spec.sk));
            let d_low = db.build(&spec.pats).unwrap();
            if verif::dfa::to_raw(&d_low).trans != verif::dfa::to_raw(d).trans {
                problems.push("low-level dfa builder differs from top-level".into());
            }
        }
        problems.extend(fidelity(&spec.name, n, c, d));
        let (rel_u, wit_u, bad_u) = product(n, c, d, Anchored::No);
        let (rel_a, wit_a, bad_a) = product(n, c, d, Anchored::Yes);
        let sim_conflicts: Vec<String> = bad_u.into_iter().chain(bad_a).collect();

        let rd = verif::dfa::to_raw(d);
        let rc = verif::cnfa::to_raw(c);
        let rn = verif::nnfa::to_raw(n);
        let m = format!("c_{}", spec.name);
        writeln!(rs, "pub mod {} {{", m).unwrap();
        for (i, p) in spec.pats.iter().enumerate() {
            writeln!(rs, "pub static P{}: [u8; {}] = {};", i, p.len(), arr(p)).unwrap();
        }
        write!(rs, "pub static PATS: [&[u8]; {}] = [", spec.pats.len()).unwrap();
        for i in 0..spec.pats.len() {
            write!(rs, "&P{}, ", i).unwrap();
        }
        writeln!(rs, "];").unwrap();
        // DFA
        writeln!(rs, "pub mod d {{").unwrap();
        writeln!(rs, "pub static TRANS: [u32; {}] = {};", rd.trans.len(), arr(&rd.trans)).unwrap();
        for (i, row) in rd.matches.iter().enumerate() {
            writeln!(rs, "pub static M{}: [u32; {}] = {};", i, row.len(), arr(row)).unwrap();
        }
        write!(rs, "pub static MATCHES: [&[u32]; {}] = [", rd.matches.len()).unwrap();
        for i in 0..rd.matches.len() {
            write!(rs, "&M{}, ", i).unwrap();
        }
        writeln!(rs, "];").unwrap();
        writeln!(rs, "pub static PLENS: [u32; {}] = {};", rd.pattern_lens.len(), arr(&rd.pattern_lens)).unwrap();
        writeln!(rs, "pub static BC: [u8; 256] = {};", arr(&rd.byte_classes)).unwrap();
        writeln!(rs, "pub const SPECIAL: [u32; 4] = {};", arr(&rd.special)).unwrap();
        writeln!(rs, "pub const STRIDE2: usize = {};", rd.stride2).unwrap();
        writeln!(rs, "pub const STATE_LEN: usize = {};", rd.state_len).unwrap();
        writeln!(
            rs,
            "pub fn get() -> aho_corasick::dfa::DFA {{ aho_corasick::verif::dfa::from_parts(&TRANS, vec![{}], &PLENS, {}, {}, {}, {}, &BC, {}, {}, SPECIAL) }}",
            (0..rd.matches.len()).map(|i| format!("aho_corasick::verif::dfa::row(&M{})", i)).collect::<Vec<_>>().join(", "),
            rd.match_kind, rd.state_len, rd.alphabet_len, rd.stride2, rd.min_pattern_len, rd.max_pattern_len
        )
        .unwrap();
        writeln!(rs, "}}").unwrap();
        // contiguous NFA
        writeln!(rs, "pub mod c {{").unwrap();
        writeln!(rs, "pub static REPR: [u32; {}] = {};", rc.repr.len(), arr(&rc.repr)).unwrap();
        writeln!(rs, "pub static PLENS: [u32; {}] = {};", rc.pattern_lens.len(), arr(&rc.pattern_lens)).unwrap();
        writeln!(rs, "pub static BC: [u8; 256] = {};", arr(&rc.byte_classes)).unwrap();
        writeln!(rs, "pub const SPECIAL: [u32; 4] = {};", arr(&rc.special)).unwrap();
        writeln!(
            rs,
            "pub fn get() -> aho_corasick::nfa::contiguous::NFA {{ aho_corasick::verif::cnfa::from_parts(&REPR, &PLENS, {}, {}, {}, &BC, {}, {}, SPECIAL) }}",
            rc.state_len, rc.match_kind, rc.alphabet_len, rc.min_pattern_len, rc.max_pattern_len
        )
        .unwrap();
        writeln!(rs, "}}").unwrap();
        // noncontiguous NFA
        writeln!(rs, "pub mod n {{").unwrap();
        writeln!(rs, "use aho_corasick::verif::nnfa::{{state as s, transition as t, mat as m, VState, VTransition, VMatch}};").unwrap();
        write!(rs, "pub static STATES: [VState; {}] = [", rn.states.len()).unwrap();
        for a in &rn.states {
            write!(rs, "s({:?}),", a).unwrap();
        }
        writeln!(rs, "];").unwrap();
        write!(rs, "pub static SPARSE: [VTransition; {}] = [", rn.sparse.len()).unwrap();
        for a in &rn.sparse {
            write!(rs, "t({:?}),", a).unwrap();
        }
        writeln!(rs, "];").unwrap();
        write!(rs, "pub static MATCHES: [VMatch; {}] = [", rn.matches.len()).unwrap();
        for a in &rn.matches {
            write!(rs, "m({:?}),", a).unwrap();
        }
        writeln!(rs, "];").unwrap();
        writeln!(rs, "pub static DENSE: [u32; {}] = {};", rn.dense.len(), arr(&rn.dense)).unwrap();
        writeln!(rs, "pub static PLENS: [u32; {}] = {};", rn.pattern_lens.len(), arr(&rn.pattern_lens)).unwrap();
        writeln!(rs, "pub static BC: [u8; 256] = {};", arr(&rn.byte_classes)).unwrap();
        writeln!(rs, "pub const SPECIAL: [u32; 4] = {};", arr(&rn.special)).unwrap();
        writeln!(
            rs,
            "pub fn get() -> aho_corasick::nfa::noncontiguous::NFA {{ aho_corasick::verif::nnfa::from_parts(&STATES, &SPARSE, &DENSE, &MATCHES, &PLENS, {}, &BC, {}, {}, SPECIAL) }}",
            rn.match_kind, rn.min_pattern_len, rn.max_pattern_len
        )
        .unwrap();
        writeln!(rs, "}}").unwrap();
        // relation
        for (nm, rel) in [("REL_U", &rel_u), ("REL_A", &rel_a)] {
            write!(rs, "pub static {}: [[u32; 3]; {}] = [", nm, rel.len()).unwrap();
            for (k, (x, y)) in rel.iter() {
                write!(rs, "[{},{},{}],", k, x, y).unwrap();
            }
            writeln!(rs, "];").unwrap();
        }
        // prefilter
        let pf_desc = verif::prefilter::describe(verif::nnfa::take_prefilter(n).as_ref());
        let pf_desc_d = verif::prefilter::describe(verif::dfa::take_prefilter(d).as_ref());
        if format!("{:?}", pf_desc) != format!("{:?}", pf_desc_d) {
            problems.push("prefilter of the DFA differs from the noncontiguous NFA's".into());
        }
        let pfp = "aho_corasick::verif::prefilter";
        let mut pf_packed_min = 0usize;
        let mut pf_packed_max_bucket = 0usize;
        let (pf_code, pf_expr): (u8, String) = match &pf_desc {
            verif::prefilter::Desc::None => (0, "None".into()),
            verif::prefilter::Desc::Start1(a) => (1, format!("Some({}::start1({}))", pfp, a)),
            verif::prefilter::Desc::Start2(a, b) => (2, format!("Some({}::start2({}, {}))", pfp, a, b)),
            verif::prefilter::Desc::Start3(a, b, c) => (3, format!("Some({}::start3({}, {}, {}))", pfp, a, b, c)),
            verif::prefilter::Desc::Rare1(a, o) => (4, format!("Some({}::rare1({}, {}))", pfp, a, o)),
            verif::prefilter::Desc::Rare2(o, a, b) => {
                writeln!(rs, "pub static RARE_OFFSETS: [u8; 256] = {};", arr(o)).unwrap();
                (5, format!("Some({}::rare2(&RARE_OFFSETS, {}, {}))", pfp, a, b))
            }
            verif::prefilter::Desc::Rare3(o, a, b, c) => {
                writeln!(rs, "pub static RARE_OFFSETS: [u8; 256] = {};", arr(o)).unwrap();
                (6, format!("Some({}::rare3(&RARE_OFFSETS, {}, {}, {}))", pfp, a, b, c))
            }
            verif::prefilter::Desc::Memmem(nd) => {
                writeln!(rs, "pub static NEEDLE: [u8; {}] = {};", nd.len(), arr(nd)).unwrap();
                (7, format!("Some({}::memmem(&NEEDLE))", pfp))
            }
            verif::prefilter::Desc::Packed => {
                let pre = verif::nnfa::take_prefilter(n).unwrap();
                let srch = verif::prefilter::packed_searcher(&pre).unwrap();
                let raw = verif::packed::api::to_raw(srch);
                if raw.by_id != spec.pats {
                    problems.push("packed prefilter was built from a different pattern list than the automaton".into());
                }
                writeln!(rs, "pub mod pk {{").unwrap();
                let tb = emit_packed_statics(&mut rs, &raw);
                if raw.imp != "RabinKarp" && tb == 0 {
                    problems.push(format!("packed prefilter implementation {} cannot be rebuilt", raw.imp));
                }
                // the packed searcher owns its own copies of the patterns
                for (i, p) in raw.by_id.iter().enumerate() {
                    writeln!(rs, "pub static Q{}: [u8; {}] = {};", i, p.len(), arr(p)).unwrap();
                }
                // Cut (stated in the evidence): the prefilter's packed searcher is rebuilt
                // with its Rabin-Karp half only. For haystacks shorter than its Teddy's
                // minimum length (which is every haystack of the automaton harnesses)
                // `find_in` takes exactly that path in the real searcher.
                pf_packed_min = raw.minimum_len;
                pf_packed_max_bucket = raw.rk_buckets.iter().map(|b| b.len()).max().unwrap_or(0);
                let _ = tb;
                let e = packed_expr(&raw, raw.by_id.len(), "Q_", 0).replace("&Q_P", "&Q");
                writeln!(rs, "pub fn get() -> aho_corasick::packed::Searcher {{ {} }}", e).unwrap();
                writeln!(rs, "}}").unwrap();
                (8, format!("Some({}::packed(pk::get()))", pfp))
            }
            verif::prefilter::Desc::Unknown(x) => {
                problems.push(format!("unknown prefilter variant {}", x));
                (9, "None".into())
            }
        };
        // BFS witness strings of the unanchored relation rows (same order as REL_U)
        for (i, (k, _)) in rel_u.iter().enumerate() {
            let w = &wit_u[k];
            writeln!(rs, "pub static W{}: [u8; {}] = {};", i, w.len(), arr(w)).unwrap();
        }
        write!(rs, "pub static WIT_U: [&[u8]; {}] = [", rel_u.len()).unwrap();
        for i in 0..rel_u.len() {
            write!(rs, "&W{},", i).unwrap();
        }
        writeln!(rs, "];").unwrap();
        writeln!(rs, "pub struct C;").unwrap();
        writeln!(rs, "impl crate::Case for C {{").unwrap();
        writeln!(rs, "const NAME: &'static str = {:?};", spec.name).unwrap();
        writeln!(rs, "const MK: u8 = {};", spec.mk).unwrap();
        writeln!(rs, "const CI: bool = {};", spec.ci).unwrap();
        writeln!(rs, "const SK: u8 = {};", spec.sk).unwrap();
        writeln!(rs, "const NPATS: usize = {};", spec.pats.len()).unwrap();
        writeln!(rs, "const MAXLEN: usize = {};", spec.pats.iter().map(|p| p.len()).max().unwrap_or(0)).unwrap();
        writeln!(rs, "const MINLEN: usize = {};", spec.pats.iter().map(|p| p.len()).min().unwrap_or(0)).unwrap();
        writeln!(rs, "fn pats() -> &'static [&'static [u8]] {{ &PATS }}").unwrap();
        writeln!(rs, "const PF: u8 = {};", pf_code).unwrap();
        writeln!(rs, "fn prefilter() -> Option<aho_corasick::automaton::Prefilter> {{ {} }}", pf_expr).unwrap();
        writeln!(rs, "fn dfa() -> aho_corasick::dfa::DFA {{ let mut a = d::get(); aho_corasick::verif::dfa::set_prefilter(&mut a, Self::prefilter()); a }}").unwrap();
        writeln!(rs, "fn cnfa() -> aho_corasick::nfa::contiguous::NFA {{ let mut a = c::get(); aho_corasick::verif::cnfa::set_prefilter(&mut a, Self::prefilter()); a }}").unwrap();
        writeln!(rs, "fn nnfa() -> aho_corasick::nfa::noncontiguous::NFA {{ let mut a = n::get(); aho_corasick::verif::nnfa::set_prefilter(&mut a, Self::prefilter()); a }}").unwrap();
        writeln!(rs, "fn rel_u() -> &'static [[u32; 3]] {{ &REL_U }}").unwrap();
        writeln!(rs, "fn rel_a() -> &'static [[u32; 3]] {{ &REL_A }}").unwrap();
        writeln!(rs, "fn wit_u() -> &'static [&'static [u8]] {{ &WIT_U }}").unwrap();
        writeln!(rs, "}}").unwrap();
        writeln!(rs, "}}").unwrap();

        // facts
        if !first {
            facts.push_str(",\n");
        }
        first = false;
        write!(facts, "{}: {{", json_str(&spec.name)).unwrap();
        write!(facts, "\"pats\": [{}], ", spec.pats.iter().map(|p| json_str(&hex(p))).collect::<Vec<_>>().join(",")).unwrap();
        write!(facts, "\"mk\": {}, \"ci\": {}, \"pf\": {}, \"bc\": {}, \"sk\": {}, \"dd\": {}, ", spec.mk, spec.ci, spec.pf, spec.bc, spec.sk, spec.dd.map_or("null".to_string(), |d| d.to_string())).unwrap();
        write!(facts, "\"auto_kind\": {}, \"auto_equal\": {}, ", auto_kind, auto_equal).unwrap();
        write!(facts, "\"dfa_states\": {}, \"dfa_stride2\": {}, \"dfa_alphabet\": {}, \"dfa_match_rows\": {}, \"dfa_special\": {:?}, ", rd.state_len, rd.stride2, rd.alphabet_len, rd.matches.len(), rd.special).unwrap();
        write!(facts, "\"cnfa_special\": {:?}, \"nnfa_special\": {:?}, ", rc.special, rn.special).unwrap();
        write!(facts, "\"prefilter\": {}, \"has_prefilter\": {}, \"pf_code\": {}, \"pf_packed_min\": {}, \"pf_packed_max_bucket\": {}, ", json_str(&rn.prefilter_debug), rn.has_prefilter, pf_code, pf_packed_min, pf_packed_max_bucket).unwrap();
        // nnfa per-state: sparse list length, has dense row, match list length, fail chain length
        let mut nn_states = vec![];
        for (i, st) in rn.states.iter().enumerate() {
            let mut len = 0;
            let mut link = st[0];
            while link != 0 {
                len += 1;
                link = rn.sparse[link as usize][2];
            }
            let mut ml = 0;
            let mut link = st[2];
            while link != 0 {
                ml += 1;
                link = rn.matches[link as usize][1];
            }
            let mut fl = 0;
            let mut f = i as u32;
            // follow fail links until the start/dead states (bounded)
            while fl < 1000 {
                let nf = rn.states[f as usize][3];
                if nf == f || f == rn.special[2] || f <= 1 {
                    break;
                }
                f = nf;
                fl += 1;
            }
            nn_states.push(format!("[{},{},{},{},{},{}]", i, len, (st[1] != 0) as u8, ml, fl, st[4]));
        }
        write!(facts, "\"nnfa_states\": [{}], ", nn_states.join(",")).unwrap();
        write!(facts, "\"nnfa_fail\": [{}], ", rn.states.iter().map(|st| st[3].to_string()).collect::<Vec<_>>().join(",")).unwrap();
        let ctab = verif::cnfa::state_table(c);
        write!(facts, "\"cnfa_states\": [{}], ", ctab.iter().map(|t| format!("[{},{},{},{}]", t.0, t.1, t.2, t.3)).collect::<Vec<_>>().join(",")).unwrap();
        write!(facts, "\"rel_u\": [{}], ", rel_u.iter().map(|(k, (x, y))| format!("[{},{},{}]", k, x, y)).collect::<Vec<_>>().join(",")).unwrap();
        write!(facts, "\"rel_a\": [{}], ", rel_a.iter().map(|(k, (x, y))| format!("[{},{},{}]", k, x, y)).collect::<Vec<_>>().join(",")).unwrap();
        write!(facts, "\"wit_u\": {{{}}}, ", wit_u.iter().map(|(k, w)| format!("\"{}\": {}", k, json_str(&hex(w)))).collect::<Vec<_>>().join(",")).unwrap();
        write!(facts, "\"wit_a\": {{{}}}, ", wit_a.iter().map(|(k, w)| format!("\"{}\": {}", k, json_str(&hex(w)))).collect::<Vec<_>>().join(",")).unwrap();
        write!(facts, "\"sim_conflicts\": [{}], ", sim_conflicts.iter().map(|s| json_str(s)).collect::<Vec<_>>().join(",")).unwrap();
        write!(facts, "\"problems\": [{}]", problems.iter().map(|s| json_str(s)).collect::<Vec<_>>().join(",")).unwrap();
        facts.push('}');
    }
    facts.push_str("\n}\n");
    std::fs::write(out_rs, rs).unwrap();
    std::fs::write(out_facts, facts).unwrap();
}

#[derive(Clone, Debug)]
pub struct PackedSpec {
    pub name: String,
    pub kind: u8,       // 1 leftmost-first, 2 leftmost-longest
    pub force: String,  // rk | teddy128 | auto
    pub pats: Vec<Vec<u8>>,
}

pub fn parse_packed(line: &str) -> PackedSpec {
    let f: Vec<&str> = line.split_whitespace().collect();
    assert!(f.len() == 5 && f[0] == "packed", "bad packed line: {}", line);
    PackedSpec {
        name: f[1].to_string(),
        kind: if f[2] == "lf" { 1 } else { 2 },
        force: f[3].to_string(),
        pats: f[4].split(',').map(unhex).collect(),
    }
}

pub fn build_packed(spec: &PackedSpec) -> Option<aho_corasick::packed::Searcher> {
    use aho_corasick::packed;
    let mut c = packed::Config::new();
    c.match_kind(if spec.kind == 1 { packed::MatchKind::LeftmostFirst } else { packed::MatchKind::LeftmostLongest });
    match spec.force.as_str() {
        "rk" => {
            c.only_rabin_karp(true);
        }
        "teddy128" => {
            c.only_teddy(true).only_teddy_256bit(Some(false)).only_teddy_fat(Some(false));
        }
        "teddy256" => {
            c.only_teddy(true).only_teddy_256bit(Some(true)).only_teddy_fat(Some(false));
        }
        "fat" => {
            c.only_teddy(true).only_teddy_fat(Some(true));
        }
        _ => {}
    }
    c.builder().extend(&spec.pats).build()
}

/// Emit the statics of a packed searcher dump; returns the Teddy fingerprint
/// length to rebuild with (0 = Rabin-Karp only).
fn emit_packed_statics(rs: &mut String, raw: &verif::packed::api::RawSearcher) -> usize {
    writeln!(rs, "pub static ORDER: [u32; {}] = {};", raw.order.len(), arr(&raw.order)).unwrap();
    assert!(raw.rk_buckets.len() == 64, "Rabin-Karp bucket count changed");
    // all empty buckets alias one shared empty static (keeps the solver's
    // points-to sets for the bucket pointer small)
    writeln!(rs, "pub static RKE: [aho_corasick::verif::packed::rabinkarp::Entry; 0] = [];").unwrap();
    for (i, b) in raw.rk_buckets.iter().enumerate() {
        if b.is_empty() {
            continue;
        }
        write!(rs, "pub static RK{}: [aho_corasick::verif::packed::rabinkarp::Entry; {}] = [", i, b.len()).unwrap();
        for (h, pid) in b {
            write!(rs, "aho_corasick::verif::packed::rabinkarp::entry({}, {}),", h, pid).unwrap();
        }
        writeln!(rs, "];").unwrap();
    }
    write!(rs, "pub static RKB: [&[aho_corasick::verif::packed::rabinkarp::Entry]; 64] = [").unwrap();
    for i in 0..64 {
        if raw.rk_buckets[i].is_empty() {
            write!(rs, "&RKE,").unwrap();
        } else {
            write!(rs, "&RK{},", i).unwrap();
        }
    }
    writeln!(rs, "];").unwrap();
    let teddy_bytes = if raw.teddy_rebuildable { raw.teddy_masks.len() } else { 0 };
    let mut tb = raw.teddy_buckets.clone();
    while tb.len() < 8 {
        tb.push(vec![]);
    }
    for (i, b) in tb.iter().enumerate().take(8) {
        writeln!(rs, "pub static TB{}: [u32; {}] = {};", i, b.len(), arr(b)).unwrap();
    }
    writeln!(rs, "pub static TBS: [&[u32]; 8] = [&TB0, &TB1, &TB2, &TB3, &TB4, &TB5, &TB6, &TB7];").unwrap();
    write!(rs, "pub static TMASKS: [([u8; 16], [u8; 16]); {}] = [", raw.teddy_masks.len()).unwrap();
    for (lo, hi) in &raw.teddy_masks {
        write!(rs, "({}, {}),", arr(lo), arr(hi)).unwrap();
    }
    writeln!(rs, "];").unwrap();
    // 256-bit tables (slim AVX2: 8 buckets, fat AVX2: 16 buckets); empty for the 128-bit variant
    let mut tb = raw.teddy_buckets256.clone();
    while tb.len() < 16 {
        tb.push(vec![]);
    }
    for (i, b) in tb.iter().enumerate().take(16) {
        writeln!(rs, "pub static TC{}: [u32; {}] = {};", i, b.len(), arr(b)).unwrap();
    }
    writeln!(rs, "pub static TBS16: [&[u32]; 16] = [{}];", (0..16).map(|i| format!("&TC{}", i)).collect::<Vec<_>>().join(", ")).unwrap();
    write!(rs, "pub static TMASKS256: [([u8; 32], [u8; 32]); {}] = [", raw.teddy_masks256.len()).unwrap();
    for (lo, hi) in &raw.teddy_masks256 {
        write!(rs, "({}, {}),", arr(lo), arr(hi)).unwrap();
    }
    writeln!(rs, "];").unwrap();
    if raw.teddy_variant == 2 {
        return if raw.teddy_rebuildable { raw.teddy_masks256.len() } else { 0 };
    }
    teddy_bytes
}

/// Expression that rebuilds the dumped searcher from the emitted statics
/// (patterns P0.. must be in scope under `pp`).
fn packed_expr(raw: &verif::packed::api::RawSearcher, npats: usize, pp: &str, teddy_bytes: usize) -> String {
    format!(
        "aho_corasick::verif::packed::api::from_parts({}, vec![{}], &ORDER, {}, &RKB, {}, {}, {}, &TBS, &TMASKS, {}, {}, &TBS16, &TMASKS256)",
        raw.kind,
        (0..npats).map(|i| format!("aho_corasick::verif::packed::pattern::pat(&{}P{})", pp, i)).collect::<Vec<_>>().join(", "),
        raw.patterns_minimum_len, raw.rk_hash_len, raw.rk_hash_2pow, teddy_bytes, raw.minimum_len, raw.teddy_variant
    )
}

fn gen_packed(line: &str, rs: &mut String, facts: &mut String) {
    let spec = parse_packed(line);
    let srch = build_packed(&spec).unwrap_or_else(|| panic!("packed case {}: no searcher built", spec.name));
    let raw = verif::packed::api::to_raw(&srch);
    let m = format!("p_{}", spec.name);
    writeln!(rs, "pub mod {} {{", m).unwrap();
    for (i, p) in spec.pats.iter().enumerate() {
        writeln!(rs, "pub static P{}: [u8; {}] = {};", i, p.len(), arr(p)).unwrap();
    }
    write!(rs, "pub static PATS: [&[u8]; {}] = [", spec.pats.len()).unwrap();
    for i in 0..spec.pats.len() {
        write!(rs, "&P{}, ", i).unwrap();
    }
    writeln!(rs, "];").unwrap();
    let teddy_bytes = emit_packed_statics(rs, &raw);
    writeln!(rs, "pub struct C;").unwrap();
    writeln!(rs, "impl crate::PackedCase for C {{").unwrap();
    writeln!(rs, "const NAME: &'static str = {:?};", spec.name).unwrap();
    writeln!(rs, "const KIND: u8 = {};", spec.kind).unwrap();
    writeln!(rs, "const NPATS: usize = {};", spec.pats.len()).unwrap();
    writeln!(rs, "const MINIMUM_LEN: usize = {};", raw.minimum_len).unwrap();
    writeln!(rs, "fn pats() -> &'static [&'static [u8]] {{ &PATS }}").unwrap();
    writeln!(rs, "fn searcher() -> aho_corasick::packed::Searcher {{ {} }}", packed_expr(&raw, spec.pats.len(), "", teddy_bytes)).unwrap();
    if raw.teddy_variant != 0 && teddy_bytes != 0 {
        writeln!(rs, "fn find_in(hay: &[u8], span: aho_corasick::Span) -> Option<aho_corasick::Match> {{ aho_corasick::verif::packed::api::avx2_find_in({}, vec![{}], &ORDER, {}, {}, {}, &TBS, &TMASKS, &TBS16, &TMASKS256, hay, span).expect(\"span shorter than the vector path's minimum length\") }}",
            raw.kind,
            (0..spec.pats.len()).map(|i| format!("aho_corasick::verif::packed::pattern::pat(&P{})", i)).collect::<Vec<_>>().join(", "),
            raw.patterns_minimum_len, raw.teddy_variant, teddy_bytes).unwrap();
    }
    writeln!(rs, "}}").unwrap();
    writeln!(rs, "}}").unwrap();
    // fidelity: the rebuilt searcher must dump identically
    let mut problems: Vec<String> = vec![];
    if raw.imp != "RabinKarp" && !raw.teddy_rebuildable {
        problems.push(format!("teddy implementation {} cannot be rebuilt by the hook", raw.imp));
    }
    write!(facts, "{}: {{", json_str(&format!("packed:{}", spec.name))).unwrap();
    write!(facts, "\"pats\": [{}], ", spec.pats.iter().map(|p| json_str(&hex(p))).collect::<Vec<_>>().join(",")).unwrap();
    write!(facts, "\"kind\": {}, \"force\": {}, \"imp\": {}, \"minimum_len\": {}, \"teddy_bytes\": {}, \"order\": {:?}, ", spec.kind, json_str(&spec.force), json_str(&raw.imp), raw.minimum_len, teddy_bytes, raw.order).unwrap();
    let tbk = if raw.teddy_variant == 0 { &raw.teddy_buckets } else { &raw.teddy_buckets256 };
    write!(facts, "\"rk_hash_len\": {}, \"max_bucket\": {}, \"max_teddy_bucket\": {}, \"teddy_nonempty_buckets\": {}, \"teddy_variant\": {}, ", raw.rk_hash_len, raw.rk_buckets.iter().map(|b| b.len()).max().unwrap_or(0), tbk.iter().map(|b| b.len()).max().unwrap_or(0), tbk.iter().filter(|b| !b.is_empty()).count(), raw.teddy_variant).unwrap();
    write!(facts, "\"problems\": [{}]", problems.iter().map(|s| json_str(s)).collect::<Vec<_>>().join(",")).unwrap();
    facts.push('}');
}

/// Differential validation of the environment stubs against the real
/// functions on pseudo-random inputs (not part of any claim; DESIGN 1.7).
fn stubcheck() -> i32 {
    let mut x: u64 = 0x9E3779B97F4A7C15;
    let mut rnd = move || {
        x ^= x << 13;
        x ^= x >> 7;
        x ^= x << 17;
        x
    };
    let mut bad = 0;
    for _ in 0..100_000 {
        let len = (rnd() % 24) as usize;
        // small alphabet so that needles are actually found
        let hay: Vec<u8> = (0..len).map(|_| (rnd() % 5) as u8 + b'a').collect();
        let (a, b, c) = ((rnd() % 6) as u8 + b'a', (rnd() % 6) as u8 + b'a', (rnd() % 6) as u8 + b'a');
        if memchr_model::memchr(a, &hay) != memchr::memchr(a, &hay) || stubs::memchr1(a, &hay) != memchr::memchr(a, &hay) {
            bad += 1;
        }
        if memchr_model::memchr2(a, b, &hay) != memchr::memchr2(a, b, &hay) {
            bad += 1;
        }
        if memchr_model::memchr3(a, b, c, &hay) != memchr::memchr3(a, b, c, &hay) {
            bad += 1;
        }
        let nlen = (rnd() % 4) as usize;
        let needle: Vec<u8> = (0..nlen).map(|_| (rnd() % 3) as u8 + b'a').collect();
        let f = memchr::memmem::Finder::new(&needle);
        if memchr_model::memmem::Finder::new(&needle).find(&hay) != f.find(&hay) {
            bad += 1;
        }
        #[cfg(target_arch = "x86_64")]
        if std::is_x86_feature_detected!("ssse3") {
            let mut va = [0u8; 16];
            let mut vb = [0u8; 16];
            for i in 0..16 {
                va[i] = rnd() as u8;
                vb[i] = rnd() as u8;
            }
            unsafe {
                use core::arch::x86_64::*;
                let ra: [u8; 16] = core::mem::transmute(real_pshufb(core::mem::transmute(va), core::mem::transmute(vb)));
                let rb: [u8; 16] = core::mem::transmute(stubs::pshufb_model(core::mem::transmute::<[u8; 16], __m128i>(va), core::mem::transmute::<[u8; 16], __m128i>(vb)));
                if ra != rb {
                    bad += 1;
                }
            }
        }
    }
    #[cfg(target_arch = "x86_64")]
    if std::is_x86_feature_detected!("avx2") {
        for _ in 0..100_000 {
            let mut va = [0u8; 32];
            let mut vb = [0u8; 32];
            for i in 0..32 {
                va[i] = rnd() as u8;
                vb[i] = rnd() as u8;
            }
            unsafe {
                use core::arch::x86_64::*;
                let ra: [u8; 32] = core::mem::transmute(real_pshufb256(core::mem::transmute(va), core::mem::transmute(vb)));
                let rb: [u8; 32] = core::mem::transmute(stubs::pshufb256_model(core::mem::transmute::<[u8; 32], __m256i>(va), core::mem::transmute::<[u8; 32], __m256i>(vb)));
                if ra != rb {
                    bad += 1;
                }
            }
        }
    }
    println!("stub validation: 100000 rounds, {} disagreements", bad);
    (bad > 0) as i32
}

#[cfg(target_arch = "x86_64")]
#[target_feature(enable = "ssse3")]
unsafe fn real_pshufb(a: core::arch::x86_64::__m128i, b: core::arch::x86_64::__m128i) -> core::arch::x86_64::__m128i {
    core::arch::x86_64::_mm_shuffle_epi8(a, b)
}

#[cfg(target_arch = "x86_64")]
#[target_feature(enable = "avx2")]
unsafe fn real_pshufb256(a: core::arch::x86_64::__m256i, b: core::arch::x86_64::__m256i) -> core::arch::x86_64::__m256i {
    core::arch::x86_64::_mm256_shuffle_epi8(a, b)
}

fn main() {
    let args: Vec<String> = std::env::args().collect();
    match args.get(1).map(|s| s.as_str()) {
        Some("gen") => gen(&args[2], &args[3], &args[4]),
        Some("replay") => std::process::exit(replay::replay(&args[2])),
        Some("selftest") => std::process::exit(replay::selftest(&args[2])),
        Some("stubcheck") => std::process::exit(stubcheck()),
        Some("guardchild") => std::process::exit(replay::guardchild()),
        Some("guardteddy") => std::process::exit(replay::guardteddy(&args[2..])),
        _ => {
            eprintln!("usage: vdump gen|replay|selftest ...");
            std::process::exit(2);
        }
    }
}
