//! Executable contract of the memchr API subset used by aho-corasick
//! (`memchr{,2,3}` = index of the first byte equal to any needle byte;
//! `memmem::Finder::find` = start of the first occurrence of the needle).
//! This crate replaces the real `memchr` only in the Kani harness build: the
//! inside of memchr is outside every claim and is trusted to meet this
//! documented contract. `vdump stubcheck` compares these functions with the
//! real crate on 10^5 pseudo-random inputs at setup.

/// Model-only instrumentation (C19): number of haystack bytes examined by the
/// byte scanners since the last reset.
pub static SCANNED: core::sync::atomic::AtomicUsize = core::sync::atomic::AtomicUsize::new(0);

#[inline(always)]
fn tick() {
    use core::sync::atomic::Ordering::Relaxed;
    SCANNED.store(SCANNED.load(Relaxed) + 1, Relaxed);
}

/// Address at which the previous scan started, how often in a row scans
/// started at one and the same address, and how often a scan started before
/// the previous one.
pub static LAST_START: core::sync::atomic::AtomicUsize = core::sync::atomic::AtomicUsize::new(0);
pub static SAME_START_RUN: core::sync::atomic::AtomicUsize = core::sync::atomic::AtomicUsize::new(0);
pub static MAX_SAME_START_RUN: core::sync::atomic::AtomicUsize = core::sync::atomic::AtomicUsize::new(0);
pub static START_DECREASES: core::sync::atomic::AtomicUsize = core::sync::atomic::AtomicUsize::new(0);
/// Lowest start address and highest end address of any scanned slice (0 = none yet).
pub static MIN_START: core::sync::atomic::AtomicUsize = core::sync::atomic::AtomicUsize::new(0);
pub static MAX_END: core::sync::atomic::AtomicUsize = core::sync::atomic::AtomicUsize::new(0);

#[inline(always)]
fn note_scan(hay: &[u8]) {
    use core::sync::atomic::Ordering::Relaxed;
    let p = hay.as_ptr() as usize;
    let last = LAST_START.load(Relaxed);
    if last != 0 && p < last {
        START_DECREASES.store(START_DECREASES.load(Relaxed) + 1, Relaxed);
    }
    let run = if last == p { SAME_START_RUN.load(Relaxed) + 1 } else { 1 };
    SAME_START_RUN.store(run, Relaxed);
    if run > MAX_SAME_START_RUN.load(Relaxed) {
        MAX_SAME_START_RUN.store(run, Relaxed);
    }
    LAST_START.store(p, Relaxed);
    let lo = MIN_START.load(Relaxed);
    if lo == 0 || p < lo {
        MIN_START.store(p, Relaxed);
    }
    if p + hay.len() > MAX_END.load(Relaxed) {
        MAX_END.store(p + hay.len(), Relaxed);
    }
}

/// (lowest start address, highest end address) over all scans since the last reset; (0, 0) if none.
pub fn model_scan_range() -> (usize, usize) {
    use core::sync::atomic::Ordering::Relaxed;
    (MIN_START.load(Relaxed), MAX_END.load(Relaxed))
}

pub fn model_scanned_reset() {
    use core::sync::atomic::Ordering::Relaxed;
    SCANNED.store(0, Relaxed);
    LAST_START.store(0, Relaxed);
    SAME_START_RUN.store(0, Relaxed);
    MAX_SAME_START_RUN.store(0, Relaxed);
    START_DECREASES.store(0, Relaxed);
    MIN_START.store(0, Relaxed);
    MAX_END.store(0, Relaxed);
}

/// (longest run of scans starting at the same address, scans that started
/// before their predecessor)
pub fn model_scan_order() -> (usize, usize) {
    use core::sync::atomic::Ordering::Relaxed;
    (MAX_SAME_START_RUN.load(Relaxed), START_DECREASES.load(Relaxed))
}

pub fn model_scanned() -> usize {
    SCANNED.load(core::sync::atomic::Ordering::Relaxed)
}

pub fn memchr(n1: u8, hay: &[u8]) -> Option<usize> {
    note_scan(hay);
    let mut i = 0;
    while i < hay.len() {
        tick();
        if hay[i] == n1 {
            return Some(i);
        }
        i += 1;
    }
    None
}

pub fn memchr2(n1: u8, n2: u8, hay: &[u8]) -> Option<usize> {
    note_scan(hay);
    let mut i = 0;
    while i < hay.len() {
        tick();
        if hay[i] == n1 || hay[i] == n2 {
            return Some(i);
        }
        i += 1;
    }
    None
}

pub fn memchr3(n1: u8, n2: u8, n3: u8, hay: &[u8]) -> Option<usize> {
    note_scan(hay);
    let mut i = 0;
    while i < hay.len() {
        tick();
        if hay[i] == n1 || hay[i] == n2 || hay[i] == n3 {
            return Some(i);
        }
        i += 1;
    }
    None
}

pub mod memmem {
    use std::borrow::Cow;

    #[derive(Clone, Debug)]
    pub struct Finder<'n> {
        needle: Cow<'n, [u8]>,
    }

    impl<'n> Finder<'n> {
        pub fn new<B: ?Sized + AsRef<[u8]>>(needle: &'n B) -> Finder<'n> {
            Finder { needle: Cow::Borrowed(needle.as_ref()) }
        }

        pub fn into_owned(self) -> Finder<'static> {
            Finder { needle: Cow::Owned(self.needle.into_owned()) }
        }

        pub fn needle(&self) -> &[u8] {
            &self.needle
        }

        pub fn find(&self, hay: &[u8]) -> Option<usize> {
            let nd: &[u8] = &self.needle;
            if nd.len() > hay.len() {
                return None;
            }
            let mut i = 0;
            while i + nd.len() <= hay.len() {
                let mut k = 0;
                let mut ok = true;
                while k < nd.len() {
                    if hay[i + k] != nd[k] {
                        ok = false;
                    }
                    k += 1;
                }
                if ok {
                    return Some(i);
                }
                i += 1;
            }
            None
        }
    }
}
