//! Environment stubs (validated differentially at setup; see DESIGN 1.7).
#![allow(dead_code)]

pub fn memchr1(n1: u8, hay: &[u8]) -> Option<usize> {
    let mut i = 0;
    while i < hay.len() {
        if hay[i] == n1 {
            return Some(i);
        }
        i += 1;
    }
    None
}

pub fn memchr2(n1: u8, n2: u8, hay: &[u8]) -> Option<usize> {
    let mut i = 0;
    while i < hay.len() {
        if hay[i] == n1 || hay[i] == n2 {
            return Some(i);
        }
        i += 1;
    }
    None
}

pub fn memchr3(n1: u8, n2: u8, n3: u8, hay: &[u8]) -> Option<usize> {
    let mut i = 0;
    while i < hay.len() {
        if hay[i] == n1 || hay[i] == n2 || hay[i] == n3 {
            return Some(i);
        }
        i += 1;
    }
    None
}

#[cfg(target_arch = "x86_64")]
pub fn cpuid_stub(_leaf: u32, _sub: u32) -> core::arch::x86_64::CpuidResult {
    core::arch::x86_64::CpuidResult { eax: 0, ebx: 0, ecx: 0, edx: 0 }
}

/// `pshufb` by its documented lane semantics.
#[cfg(target_arch = "x86_64")]
pub unsafe fn pshufb_model(
    a: core::arch::x86_64::__m128i,
    b: core::arch::x86_64::__m128i,
) -> core::arch::x86_64::__m128i {
    let a: [u8; 16] = core::mem::transmute(a);
    let b: [u8; 16] = core::mem::transmute(b);
    let mut r = [0u8; 16];
    let mut i = 0;
    while i < 16 {
        r[i] = if b[i] & 0x80 != 0 { 0 } else { a[(b[i] & 0xF) as usize] };
        i += 1;
    }
    core::mem::transmute(r)
}

/// `vpshufb` (256-bit): the 128-bit shuffle on each half independently.
#[cfg(target_arch = "x86_64")]
pub unsafe fn pshufb256_model(
    a: core::arch::x86_64::__m256i,
    b: core::arch::x86_64::__m256i,
) -> core::arch::x86_64::__m256i {
    let a: [u8; 32] = core::mem::transmute(a);
    let b: [u8; 32] = core::mem::transmute(b);
    let mut r = [0u8; 32];
    let mut i = 0;
    while i < 32 {
        let base = i & 16;
        r[i] = if b[i] & 0x80 != 0 { 0 } else { a[base + (b[i] & 0xF) as usize] };
        i += 1;
    }
    core::mem::transmute(r)
}

pub fn yes() -> bool {
    true
}

pub fn no() -> bool {
    false
}

/// Keeps the packed searcher (SIMD code) out of harnesses whose prefilter is
/// not a packed one: the `Arc<dyn PrefilterI>` call makes CBMC explore every
/// implementor. Reaching this stub is a failed check.
pub fn packed_unused<B: AsRef<[u8]>>(
    _s: &aho_corasick::packed::Searcher,
    _haystack: B,
    _span: aho_corasick::Span,
) -> Option<aho_corasick::Match> {
    unreachable!("packed searcher used in a harness that stubs it out")
}

/// `Vec::extend_from_slice` without the growth path. The replace harnesses
/// pre-size their output buffers; with the real method every append explores
/// the reallocation branch (symbolic-length `memcpy` into a fresh object),
/// which exhausted 24 GB at N=1. The stub appends in place and *asserts* that
/// the capacity suffices, so a harness whose buffer is too small fails
/// instead of silently skipping growth.
#[cfg(kani)]
pub fn extend_from_slice_nogrow<T: Clone, A: core::alloc::Allocator>(v: &mut Vec<T, A>, other: &[T]) {
    assert!(v.capacity() - v.len() >= other.len(), "harness output buffer too small");
    let mut i = 0;
    while i < other.len() {
        unsafe {
            let l = v.len();
            v.as_mut_ptr().add(l).write(other[i].clone());
            v.set_len(l + 1);
        }
        i += 1;
    }
}

/// `Vec::append_elements` (the private worker behind `extend_from_slice` and
/// `Extend<&T>`), without the growth path - see `extend_from_slice_nogrow`.
#[cfg(kani)]
pub unsafe fn append_elements_nogrow<T, A: core::alloc::Allocator>(v: &mut Vec<T, A>, other: *const [T]) {
    let count = other.len();
    assert!(v.capacity() - v.len() >= count, "harness output buffer too small");
    let src = other as *const T;
    let mut i = 0;
    while i < count {
        let l = v.len();
        core::ptr::write(v.as_mut_ptr().add(l), core::ptr::read(src.add(i)));
        v.set_len(l + 1);
        i += 1;
    }
}
