//! Harness bodies. Each is generic over a catalogue case and instantiated by
//! the generated `inst.rs`.
#![allow(dead_code)]
use crate::oracle::{self, M};
use crate::Case;
use aho_corasick::{
    automaton::{Automaton, OverlappingState, StateID},
    Anchored, Input, Match,
};

#[cfg(kani)]
use kani::{any, assume, cover};

#[inline(always)]
pub fn same(got: Option<Match>, want: Option<M>) -> bool {
    match (got, want) {
        (None, None) => true,
        (Some(m), Some((p, s, e))) => {
            m.pattern().as_usize() == p && m.start() == s && m.end() == e
        }
        _ => false,
    }
}

#[inline(always)]
pub fn anch(a: bool) -> Anchored {
    if a {
        Anchored::Yes
    } else {
        Anchored::No
    }
}

/// Which anchoring modes a harness quantifies over.
pub const UNANCHORED: u8 = 0;
pub const ANCHORED: u8 = 1;
pub const EITHER: u8 = 2;

#[cfg(kani)]
#[inline(always)]
fn pick_anchored<const A: u8>() -> bool {
    match A {
        UNANCHORED => false,
        ANCHORED => true,
        _ => any(),
    }
}

/// Symbolic valid span `0 <= s <= e <= n`.
#[cfg(kani)]
#[inline(always)]
fn any_span(n: usize) -> (usize, usize) {
    let s: usize = any();
    let e: usize = any();
    assume(s <= e && e <= n);
    (s, e)
}

/// C01/C02/C09: one non-overlapping search on the automaton vs the spec.
#[cfg(kani)]
pub fn find<C: Case, A: Automaton, const N: usize, const AN: u8>(aut: &A) {
    let hay: [u8; N] = any();
    let (s, e) = any_span(N);
    let a = pick_anchored::<AN>();
    let inp = Input::new(&hay[..]).span(s..e).anchored(anch(a));
    let got = aut.try_find(&inp).unwrap();
    let want = oracle::find(C::pats(), &hay[..], s, e, C::MK, a, C::CI);
    assert!(same(got, want), "search result differs from the definition");
    cover!(got.is_some(), "a match is found");
    cover!(got.is_none(), "no match is found");
    cover!(got.is_some() && got.unwrap().start() > s, "match after skipping bytes");
}

/// C01/C02/C09: iterator, two consecutive `next()` calls from a symbolic span
/// start (complete by induction: the iterator state after any call is
/// `(m.end, Some(m.end))`).
#[cfg(kani)]
pub fn iter2<C: Case, A: Automaton, const N: usize, const AN: u8>(aut: &A) {
    let hay: [u8; N] = any();
    let (s, e) = any_span(N);
    let a = pick_anchored::<AN>();
    let inp = Input::new(&hay[..]).span(s..e).anchored(anch(a));
    let mut it = aut.try_find_iter(inp).unwrap();
    let g1 = it.next();
    let w1 = oracle::iter_next(C::pats(), &hay[..], s, e, None, C::MK, a, C::CI);
    assert!(same(g1, w1), "first iterator item differs from the definition");
    if let Some((_, _, e1)) = w1 {
        let g2 = it.next();
        let w2 = oracle::iter_next(
            C::pats(), &hay[..], e1, e, Some(e1), C::MK, a, C::CI,
        );
        assert!(same(g2, w2), "second iterator item differs from the definition");
        cover!(g2.is_some(), "two items");
        cover!(g2.is_none(), "one item then exhaustion");
    }
    core::mem::forget(it);
}
