//! Harness bodies. Each is generic over a catalogue case and instantiated by
//! the generated `inst.rs`.
#![allow(dead_code)]
use crate::oracle::{self, M};
use crate::Case;
use aho_corasick::{
    automaton::{Automaton, OverlappingState, StateID},
    Anchored, Input, Match,
};

#[cfg(kani)]
use kani::{any, assume, cover};

#[inline(always)]
pub fn same(got: Option<Match>, want: Option<M>) -> bool {
    match (got, want) {
        (None, None) => true,
        (Some(m), Some((p, s, e))) => {
            m.pattern().as_usize() == p && m.start() == s && m.end() == e
        }
        _ => false,
    }
}

#[inline(always)]
pub fn anch(a: bool) -> Anchored {
    if a {
        Anchored::Yes
    } else {
        Anchored::No
    }
}

/// Which anchoring modes a harness quantifies over.
pub const UNANCHORED: u8 = 0;
pub const ANCHORED: u8 = 1;
pub const EITHER: u8 = 2;

#[cfg(kani)]
#[inline(always)]
fn pick_anchored<const A: u8>() -> bool {
    match A {
        UNANCHORED => false,
        ANCHORED => true,
        _ => any(),
    }
}

/// Symbolic valid span `0 <= s <= e <= n`.
#[cfg(kani)]
#[inline(always)]
fn any_span(n: usize) -> (usize, usize) {
    let s: usize = any();
    let e: usize = any();
    assume(s <= e && e <= n);
    (s, e)
}

/// Symbolic valid span including the exhausted form `s == e + 1`.
#[cfg(kani)]
#[inline(always)]
fn any_span_or_done(n: usize) -> (usize, usize) {
    let s: usize = any();
    let e: usize = any();
    assume(e <= n && s <= e + 1);
    (s, e)
}

/// C01/C02/C09: one non-overlapping search on the automaton vs the spec.
#[cfg(kani)]
pub fn find<C: Case, A: Automaton, const N: usize, const AN: u8>(aut: &A) {
    let hay: [u8; N] = any();
    let (s, e) = any_span(N);
    let a = pick_anchored::<AN>();
    let inp = Input::new(&hay[..]).span(s..e).anchored(anch(a));
    let got = aut.try_find(&inp).unwrap();
    let want = oracle::find(C::pats(), &hay[..], s, e, C::MK, a, C::CI);
    assert!(same(got, want), "search result differs from the definition");
    if let Some(m) = got {
        assert!(
            m.start() <= m.end() && m.end() <= N && m.pattern().as_usize() < C::NPATS,
            "malformed match"
        );
    }
    cover!(got.is_some(), "a match is found");
    cover!(got.is_none(), "no match is found");
    cover!(got.is_some() && got.unwrap().start() > s, "match after skipping bytes");
}

/// C01/C02/C09: iterator, two consecutive `next()` calls from a symbolic span
/// start (complete by induction: the iterator state after any call is
/// `(m.end, Some(m.end))`).
#[cfg(kani)]
pub fn iter2<C: Case, A: Automaton, const N: usize, const AN: u8>(aut: &A) {
    let hay: [u8; N] = any();
    let (s, e) = any_span(N);
    let a = pick_anchored::<AN>();
    let inp = Input::new(&hay[..]).span(s..e).anchored(anch(a));
    let mut it = aut.try_find_iter(inp).unwrap();
    let g1 = it.next();
    let w1 = oracle::iter_next(C::pats(), &hay[..], s, e, None, C::MK, a, C::CI);
    assert!(same(g1, w1), "first iterator item differs from the definition");
    if let Some((_, _, e1)) = w1 {
        let g2 = it.next();
        let w2 = oracle::iter_next(
            C::pats(), &hay[..], e1, e, Some(e1), C::MK, a, C::CI,
        );
        assert!(same(g2, w2), "second iterator item differs from the definition");
        cover!(g2.is_some(), "two items");
        cover!(g2.is_none(), "one item then exhaustion");
    }
    core::mem::forget(it);
}

/// C03/C09: complete drain of a stepwise overlapping search from the initial
/// state: K calls on one `OverlappingState`, compared element-wise with the
/// specification's ordered list of all occurrences; after the list is
/// exhausted every further call must report no match.
#[cfg(kani)]
pub fn ov_drain<C: Case, A: Automaton, const N: usize, const K: usize, const AN: u8, const SPAN: bool>(
    aut: &A,
) {
    let hay: [u8; N] = any();
    let (s, e) = if SPAN { any_span(N) } else { (0, N) };
    let a = pick_anchored::<AN>();
    let inp = Input::new(&hay[..]).span(s..e).anchored(anch(a));
    let mut st = OverlappingState::start();
    let mut got = [(0usize, 0usize, 0usize); K];
    let mut ng = 0;
    let mut late = false;
    let mut same_end = false;
    let mut k = 0;
    while k < K {
        aut.try_find_overlapping(&inp, &mut st).unwrap();
        if let Some(m) = st.get_match() {
            if ng == k {
                got[k] = (m.pattern().as_usize(), m.start(), m.end());
                if k > 0 && got[k - 1].2 == m.end() {
                    same_end = true;
                }
                ng = k + 1;
            } else {
                late = true;
            }
        }
        k += 1;
    }
    assert!(!late, "a match is reported after the search reported no match");
    // the specification's list, in order (end asc; longest first = start asc;
    // supply order)
    let pats = C::pats();
    let mut nw = 0;
    let mut end = 0;
    while end <= N {
        if end >= s && end <= e {
            let mut start = 0;
            while start <= end {
                if start >= s && (!a || start == s) {
                    let mut pid = 0;
                    while pid < pats.len() {
                        if pats[pid].len() == end - start
                            && oracle::occ(pats[pid], &hay[..], start, e, C::CI)
                        {
                            if nw < K {
                                assert!(nw < ng, "an occurrence is never reported");
                                assert!(
                                    got[nw].0 == pid && got[nw].1 == start && got[nw].2 == end,
                                    "overlapping search reports a wrong match or a wrong order"
                                );
                            }
                            nw += 1;
                        }
                        pid += 1;
                    }
                }
                start += 1;
            }
        }
        end += 1;
    }
    // only decide haystacks whose full list fits in K-1 calls (the K-th call
    // must already be the terminating "no match")
    assume(nw < K);
    assert!(nw == ng, "overlapping search reports something that is not an occurrence");
    cover!(ng >= 3, "three or more overlapping matches");
    cover!(ng == 0, "no occurrence");
    cover!(ng >= 1, "at least one match");
    cover!(same_end, "two consecutive matches with the same end");
}

/// C03: inductive step of the unanchored stepwise overlapping search. The
/// pre-state is "the state reached after consuming hay[s..=at] is a match
/// state and i >= 1 of its matches have been reported"; one call must yield
/// the specification's next occurrence (same end, else the first at a later
/// end) or none.
#[cfg(kani)]
pub fn ov_step<C: Case, A: Automaton, const N: usize>(aut: &A) {
    let hay: [u8; N] = any();
    let (s, e) = any_span(N);
    let at: usize = any();
    let i: usize = any();
    assume(s <= at && at < e);
    let mut sid = aut.start_state(Anchored::No).unwrap();
    let mut j = 0;
    while j < N {
        if j >= s && j <= at {
            sid = aut.next_state(Anchored::No, sid, hay[j]);
        }
        j += 1;
    }
    assume(aut.is_match(sid));
    assume(i >= 1 && i <= aut.match_len(sid));
    let mut st = aho_corasick::verif::automaton::overlapping_state(Some(sid), at, Some(i));
    let inp = Input::new(&hay[..]).span(s..e);
    aut.try_find_overlapping(&inp, &mut st).unwrap();
    let got = st.get_match();
    let mut want =
        oracle::nth_ending_at(C::pats(), &hay[..], s, e, at + 1, i, false, C::CI);
    if want.is_none() {
        want = oracle::first_ending_from(C::pats(), &hay[..], s, e, at + 2, false, C::CI);
    }
    assert!(same(got, want), "next overlapping match differs from the definition");
    cover!(got.is_some() && got.unwrap().end() == at + 1, "next match has the same end");
    cover!(got.is_some() && got.unwrap().end() > at + 1, "next match ends later");
    cover!(got.is_none(), "no further match");
}

/// C03: first call(s) of an overlapping search from the fresh state, and the
/// fresh-state branch that drains a matching start state (empty patterns):
/// `i` start-state matches have been reported.
#[cfg(kani)]
pub fn ov_first<C: Case, A: Automaton, const N: usize>(aut: &A) {
    let hay: [u8; N] = any();
    let (s, e) = any_span(N);
    let i: usize = any();
    let start = aut.start_state(Anchored::No).unwrap();
    let nstart = if aut.is_match(start) { aut.match_len(start) } else { 0 };
    assume(i <= nstart);
    let mut st = if i == 0 {
        OverlappingState::start()
    } else {
        aho_corasick::verif::automaton::overlapping_state(None, 0, Some(i))
    };
    let inp = Input::new(&hay[..]).span(s..e);
    aut.try_find_overlapping(&inp, &mut st).unwrap();
    let got = st.get_match();
    let mut want = oracle::nth_ending_at(C::pats(), &hay[..], s, e, s, i, false, C::CI);
    if want.is_none() {
        want = oracle::first_ending_from(C::pats(), &hay[..], s, e, s + 1, false, C::CI);
    }
    assert!(same(got, want), "first overlapping match differs from the definition");
    cover!(got.is_some(), "a first match");
    cover!(got.is_none(), "no match at all");
}

/// C14: existence, `is_match` (= earliest search) and earliest mode.
#[cfg(kani)]
pub fn ismatch<C: Case, A: Automaton, const N: usize, const AN: u8>(aut: &A) {
    let hay: [u8; N] = any();
    let (s, e) = any_span(N);
    let a = pick_anchored::<AN>();
    let inp = Input::new(&hay[..]).span(s..e).anchored(anch(a));
    let normal = aut.try_find(&inp).unwrap();
    let early = aut.try_find(&inp.clone().earliest(true)).unwrap();
    let ex = oracle::exists(C::pats(), &hay[..], s, e, a, C::CI);
    assert!(normal.is_some() == ex, "find disagrees with existence of an occurrence");
    assert!(early.is_some() == ex, "is_match/earliest disagrees with existence of an occurrence");
    if let (Some(me), Some(mn)) = (early, normal) {
        let t = (me.pattern().as_usize(), me.start(), me.end());
        assert!(
            oracle::is_occurrence(C::pats(), &hay[..], s, e, t, a, C::CI),
            "earliest search returns something that is not an occurrence"
        );
        assert!(me.end() <= mn.end(), "earliest search overshoots the normal match");
        cover!(me.end() < mn.end(), "earliest stops before the normal match ends");
    }
    cover!(ex, "an occurrence exists");
    cover!(!ex, "no occurrence exists");
}

/// C10: span search == sub-slice search, shifted; result inside the span;
/// bytes outside the span are irrelevant; start = end + 1 yields nothing.
#[cfg(kani)]
pub fn span_rel<C: Case, A: Automaton, const N: usize, const AN: u8>(aut: &A) {
    let hay: [u8; N] = any();
    let other: [u8; N] = any();
    let (s, e) = any_span(N);
    let a = pick_anchored::<AN>();
    // `sub` is the sub-slice hay[s..e] moved to offset 0; `mix` equals `hay`
    // inside the span and is arbitrary outside.
    let mut sub = [0u8; N];
    let mut mix = [0u8; N];
    let mut i = 0;
    while i < N {
        if i < e - s {
            sub[i] = hay[s + i];
        }
        mix[i] = if i >= s && i < e { hay[i] } else { other[i] };
        i += 1;
    }
    let r1 = aut.try_find(&Input::new(&hay[..]).span(s..e).anchored(anch(a))).unwrap();
    let r2 = aut.try_find(&Input::new(&sub[..e - s]).anchored(anch(a))).unwrap();
    let r3 = aut.try_find(&Input::new(&mix[..]).span(s..e).anchored(anch(a))).unwrap();
    match (r1, r2) {
        (None, None) => {}
        (Some(m1), Some(m2)) => {
            assert!(
                m1.pattern() == m2.pattern() && m1.start() == m2.start() + s && m1.end() == m2.end() + s,
                "span search differs from sub-slice search"
            );
            assert!(m1.start() >= s && m1.end() <= e, "match outside the span");
        }
        _ => assert!(false, "span search differs from sub-slice search"),
    }
    assert!(r1 == r3, "bytes outside the span change the result");
    // start one past end
    if e < N {
        let r4 = aut.try_find(&Input::new(&hay[..]).span(e + 1..e).anchored(anch(a))).unwrap();
        assert!(r4.is_none(), "a search with start = end + 1 reports a match");
    }
    cover!(r1.is_some() && s > 0 && e < N, "match in an interior span");
    cover!(r1.is_none(), "no match in the span");
}

/// C10 for the stepwise overlapping search: first step on a span vs on the
/// sub-slice, and with arbitrary bytes outside the span.
#[cfg(kani)]
pub fn span_rel_ov<C: Case, A: Automaton, const N: usize>(aut: &A) {
    let hay: [u8; N] = any();
    let other: [u8; N] = any();
    let (s, e) = any_span(N);
    let mut sub = [0u8; N];
    let mut mix = [0u8; N];
    let mut i = 0;
    while i < N {
        if i < e - s {
            sub[i] = hay[s + i];
        }
        mix[i] = if i >= s && i < e { hay[i] } else { other[i] };
        i += 1;
    }
    let mut s1 = OverlappingState::start();
    let mut s2 = OverlappingState::start();
    let mut s3 = OverlappingState::start();
    let i1 = Input::new(&hay[..]).span(s..e);
    let i2 = Input::new(&sub[..e - s]);
    let i3 = Input::new(&mix[..]).span(s..e);
    let mut k = 0;
    while k < 2 {
        aut.try_find_overlapping(&i1, &mut s1).unwrap();
        aut.try_find_overlapping(&i2, &mut s2).unwrap();
        aut.try_find_overlapping(&i3, &mut s3).unwrap();
        match (s1.get_match(), s2.get_match()) {
            (None, None) => {}
            (Some(m1), Some(m2)) => {
                assert!(
                    m1.pattern() == m2.pattern() && m1.start() == m2.start() + s && m1.end() == m2.end() + s,
                    "overlapping span search differs from sub-slice search"
                );
                assert!(m1.start() >= s && m1.end() <= e, "match outside the span");
            }
            _ => assert!(false, "overlapping span search differs from sub-slice search"),
        }
        assert!(s1.get_match() == s3.get_match(), "bytes outside the span change the result");
        k += 1;
    }
    cover!(s1.get_match().is_some() && s > 0, "second overlapping match in an offset span");
}

/// C16(b): the documented caller-written search loop vs the built-in search.
#[cfg(kani)]
pub fn recipe<C: Case, A: Automaton, const N: usize>(aut: &A) {
    let hay: [u8; N] = any();
    let n: usize = any();
    assume(n <= N);
    let haystack = &hay[..n];
    let builtin = aut.try_find(&Input::new(haystack)).unwrap();
    // --- the recipe from the `Automaton` docs, verbatim in structure ---
    let standard = matches!(aut.match_kind(), aho_corasick::MatchKind::Standard);
    let mut sid = aut.start_state(Anchored::No).unwrap();
    let mut at = 0;
    let mut mat: Option<Match> = None;
    let mut done = false;
    if aut.is_match(sid) {
        let pid = aut.match_pattern(sid, 0);
        let len = aut.pattern_len(pid);
        mat = Some(Match::new(pid, (at - len)..at));
        if standard {
            done = true;
        }
    }
    while !done && at < haystack.len() {
        sid = aut.next_state(Anchored::No, sid, haystack[at]);
        if aut.is_special(sid) {
            if aut.is_dead(sid) {
                done = true;
            } else if aut.is_match(sid) {
                let pid = aut.match_pattern(sid, 0);
                let len = aut.pattern_len(pid);
                mat = Some(Match::new(pid, (at + 1 - len)..at + 1));
                if standard {
                    done = true;
                }
            }
        }
        at += 1;
    }
    assert!(mat == builtin, "the documented search recipe differs from the built-in search");
    cover!(mat.is_some(), "recipe finds a match");
    cover!(mat.is_none(), "recipe finds nothing");
}

/// Observations that every `Automaton` state must satisfy (C16a) and that two
/// related states of different representations must agree on (C04).
#[cfg(kani)]
#[inline(always)]
fn sim_observe<X: Automaton, Y: Automaton>(x: &X, y: &Y, tx: StateID, ty: StateID, npats: usize) {
    assert!(x.is_match(tx) == y.is_match(ty), "related states disagree on is_match");
    assert!(x.is_dead(tx) == y.is_dead(ty), "related states disagree on is_dead");
    assert!(x.is_special(tx) == y.is_special(ty), "related states disagree on is_special");
    // (is_start of the dead state is not compared: a DFA built for one start kind
    // stores the dead id in the unused start slot, which no search can observe)
    assert!(x.is_dead(tx) || x.is_start(tx) == y.is_start(ty), "related states disagree on is_start");
    // contract of the state classes
    assert!(!(x.is_dead(tx) || x.is_match(tx)) || x.is_special(tx), "dead/match state not flagged special");
    assert!(!x.is_special(tx) || x.is_dead(tx) || x.is_match(tx) || x.is_start(tx), "special state is neither dead, match nor start");
    assert!(!(y.is_dead(ty) || y.is_match(ty)) || y.is_special(ty), "dead/match state not flagged special");
    assert!(!y.is_special(ty) || y.is_dead(ty) || y.is_match(ty) || y.is_start(ty), "special state is neither dead, match nor start");
    if x.is_match(tx) {
        let ln = x.match_len(tx);
        assert!(ln >= 1, "match state without a pattern");
        assert!(ln == y.match_len(ty), "related states disagree on match_len");
        let k: usize = any();
        assume(k < ln);
        let p = x.match_pattern(tx, k);
        assert!(p.as_usize() < npats, "match state lists an invalid pattern id");
        assert!(p == y.match_pattern(ty, k), "related states disagree on match_pattern");
        assert!(x.pattern_len(p) == y.pattern_len(p), "pattern_len differs");
    }
}

/// C04/C16: one simulation step between the contiguous NFA (column 1 of the
/// relation) and the DFA (column 2): for each related pair in rows LO..HI
/// (concrete loop) and a symbolic byte, the successors are again related and
/// all observations agree. AN selects the anchored walk.
#[cfg(kani)]
pub fn sim_cd<C: Case, const AN: u8, const LO: usize, const HI: usize>() {
    let x = C::cnfa();
    let y = C::dfa();
    let rel = if AN == ANCHORED { C::rel_a() } else { C::rel_u() };
    let an = anch(AN == ANCHORED);
    let mut i = LO;
    while i < HI {
        let b: u8 = any();
        let sx = StateID::new_unchecked(rel[i][1] as usize);
        let sy = StateID::new_unchecked(rel[i][2] as usize);
        let tx = x.next_state(an, sx, b);
        let ty = y.next_state(an, sy, b);
        let mut found = false;
        let mut j = 0;
        while j < rel.len() {
            if rel[j][1] == tx.as_u32() {
                found = true;
                assert!(rel[j][2] == ty.as_u32(), "successors are not related (cnfa vs dfa)");
            }
            j += 1;
        }
        assert!(found, "successor state is outside the proposed relation");
        if x.is_dead(sx) {
            assert!(x.is_dead(tx) && y.is_dead(ty), "dead state is not absorbing");
        }
        sim_observe(&x, &y, tx, ty, C::NPATS);
        cover!(x.is_match(tx), "a step into a match state");
        i += 1;
    }
    core::mem::forget(x);
    core::mem::forget(y);
}

/// Same step between the noncontiguous NFA (column 0) and the DFA (column 2).
#[cfg(kani)]
pub fn sim_nd<C: Case, const AN: u8, const LO: usize, const HI: usize>() {
    let x = C::nnfa();
    let y = C::dfa();
    let rel = if AN == ANCHORED { C::rel_a() } else { C::rel_u() };
    let an = anch(AN == ANCHORED);
    let mut i = LO;
    while i < HI {
        let b: u8 = any();
        let sx = StateID::new_unchecked(rel[i][0] as usize);
        let sy = StateID::new_unchecked(rel[i][2] as usize);
        let tx = x.next_state(an, sx, b);
        let ty = y.next_state(an, sy, b);
        let mut found = false;
        let mut j = 0;
        while j < rel.len() {
            if rel[j][0] == tx.as_u32() {
                found = true;
                assert!(rel[j][2] == ty.as_u32(), "successors are not related (nnfa vs dfa)");
            }
            j += 1;
        }
        assert!(found, "successor state is outside the proposed relation");
        if x.is_dead(sx) {
            assert!(x.is_dead(tx) && y.is_dead(ty), "dead state is not absorbing");
        }
        sim_observe(&x, &y, tx, ty, C::NPATS);
        cover!(x.is_match(tx), "a step into a match state");
        i += 1;
    }
    core::mem::forget(x);
    core::mem::forget(y);
}

/// Same step between the two NFAs only (used when the DFA does not support the
/// anchoring mode of the walk).
#[cfg(kani)]
pub fn sim_nc<C: Case, const AN: u8, const LO: usize, const HI: usize>() {
    let x = C::nnfa();
    let y = C::cnfa();
    let rel = if AN == ANCHORED { C::rel_a() } else { C::rel_u() };
    let an = anch(AN == ANCHORED);
    let mut i = LO;
    while i < HI {
        let b: u8 = any();
        let sx = StateID::new_unchecked(rel[i][0] as usize);
        let sy = StateID::new_unchecked(rel[i][1] as usize);
        let tx = x.next_state(an, sx, b);
        let ty = y.next_state(an, sy, b);
        let mut found = false;
        let mut j = 0;
        while j < rel.len() {
            if rel[j][0] == tx.as_u32() {
                found = true;
                assert!(rel[j][1] == ty.as_u32(), "successors are not related (nnfa vs cnfa)");
            }
            j += 1;
        }
        assert!(found, "successor state is outside the proposed relation");
        if x.is_dead(sx) {
            assert!(x.is_dead(tx) && y.is_dead(ty), "dead state is not absorbing");
        }
        sim_observe(&x, &y, tx, ty, C::NPATS);
        i += 1;
    }
    core::mem::forget(x);
    core::mem::forget(y);
}

/// C04/C16: start states are related, `start_state` fails exactly for the
/// anchoring the DFA was not built for, the dead state is absorbing in every
/// representation, and all metadata getters agree.
#[cfg(kani)]
pub fn sim_meta<C: Case>() {
    let n = C::nnfa();
    let c = C::cnfa();
    let d = C::dfa();
    let an: bool = any();
    let a = anch(an);
    let sn = n.start_state(a).unwrap();
    let sc = c.start_state(a).unwrap();
    let rel = if an { C::rel_a() } else { C::rel_u() };
    let supported = C::SK == 0 || (C::SK == 1 && !an) || (C::SK == 2 && an);
    let rd = d.start_state(a);
    assert!(rd.is_ok() == supported, "DFA start_state does not fail exactly for the unsupported anchoring");
    let mut found = false;
    let mut j = 0;
    while j < rel.len() {
        if rel[j][0] == sn.as_u32() {
            found = true;
            assert!(rel[j][1] == sc.as_u32(), "start states are not related (nnfa vs cnfa)");
            if let Ok(sd) = rd {
                assert!(rel[j][2] == sd.as_u32(), "start states are not related (nnfa vs dfa)");
            }
        }
        j += 1;
    }
    assert!(found, "start state missing from the relation");
    sim_observe(&n, &c, sn, sc, C::NPATS);
    if let Ok(sd) = rd {
        sim_observe(&n, &d, sn, sd, C::NPATS);
    }
    core::mem::forget(rd);
    // dead state: id 0 in every representation
    let b: u8 = any();
    let dead = StateID::new_unchecked(0);
    assert!(c.is_dead(dead) && d.is_dead(dead) && n.is_dead(dead), "state 0 is not the dead state");
    assert!(c.next_state(a, dead, b) == dead, "cnfa dead state is not absorbing");
    assert!(d.next_state(a, dead, b) == dead, "dfa dead state is not absorbing");
    // metadata
    assert!(n.patterns_len() == C::NPATS && c.patterns_len() == C::NPATS && d.patterns_len() == C::NPATS, "patterns_len");
    assert!(n.match_kind() == c.match_kind() && c.match_kind() == d.match_kind(), "match_kind differs");
    if C::NPATS > 0 {
        assert!(n.min_pattern_len() == C::MINLEN && c.min_pattern_len() == C::MINLEN && d.min_pattern_len() == C::MINLEN, "min_pattern_len");
        assert!(n.max_pattern_len() == C::MAXLEN && c.max_pattern_len() == C::MAXLEN && d.max_pattern_len() == C::MAXLEN, "max_pattern_len");
        let p: usize = any();
        assume(p < C::NPATS);
        let pid = aho_corasick::PatternID::new_unchecked(p);
        assert!(n.pattern_len(pid) == C::pats()[p].len(), "nnfa pattern_len");
        assert!(c.pattern_len(pid) == C::pats()[p].len(), "cnfa pattern_len");
        assert!(d.pattern_len(pid) == C::pats()[p].len(), "dfa pattern_len");
    }
    cover!(an && supported, "anchored start supported");
    core::mem::forget(n);
    core::mem::forget(c);
    core::mem::forget(d);
}

/// nnfa dead state (its sparse list has 256 entries): absorbing for every byte.
#[cfg(kani)]
pub fn nnfa_dead<C: Case>() {
    let n = C::nnfa();
    let b: u8 = any();
    let an: bool = any();
    let dead = StateID::new_unchecked(0);
    assert!(n.next_state(anch(an), dead, b) == dead, "nnfa dead state is not absorbing");
    core::mem::forget(n);
}

// ---------------------------------------------------------------------------
// C13: rejection depends only on configuration

use aho_corasick::AhoCorasick;

/// The specification's rejection predicate (a)-(d).
#[inline(always)]
pub fn rejected(sk: u8, mk: u8, has_empty: bool, anchored: bool, api: u8) -> bool {
    // (a) anchoring not covered by the start kind
    let a = (sk == 1 && anchored) || (sk == 2 && !anchored);
    // (b) overlapping / stream on a non-standard searcher
    let b = (api == API_OVERLAPPING || api == API_OVERLAPPING_ITER || api == API_STREAM) && mk != 0;
    // (c) anchored overlapping iterator
    let c = api == API_OVERLAPPING_ITER && anchored;
    // (d) stream search with the empty pattern
    let d = api == API_STREAM && has_empty;
    a || b || c || d
}

pub const API_FIND: u8 = 0;
pub const API_ITER: u8 = 1;
pub const API_OVERLAPPING: u8 = 2;
pub const API_OVERLAPPING_ITER: u8 = 3;
pub const API_STREAM: u8 = 4;
pub const API_REPLACE: u8 = 5;
pub const API_IS_MATCH: u8 = 6;

/// One fallible API: `Err` iff the predicate holds; never a panic. (That a
/// constructed iterator never fails later is `iter_never_fails`.)
#[cfg(kani)]
pub fn reject_fallible<C: Case, const N: usize, const API: u8, const SP: bool>(ac: &AhoCorasick) {
    let hay: [u8; N] = any();
    let an: bool = any();
    let has_empty = C::NPATS > 0 && C::MINLEN == 0;
    // SP: every valid span, including the "done" one with start = end + 1
    // (the NFA-kind instances keep the full span: with a symbolic one they exhaust 16 GB)
    let (s, e) = if SP { any_span_or_done(N) } else { (0, N) };
    let inp = Input::new(&hay[..]).span(s..e).anchored(anch(an));
    let want = rejected(C::SK, C::MK, has_empty, an, API);
    match API {
        API_FIND => {
            let r = ac.try_find(inp);
            assert!(r.is_err() == want, "try_find rejection differs from the rule");
            core::mem::forget(r);
        }
        API_ITER => {
            let r = ac.try_find_iter(inp);
            assert!(r.is_err() == want, "try_find_iter rejection differs from the rule");
            core::mem::forget(r);
        }
        API_OVERLAPPING => {
            let mut st = OverlappingState::start();
            let r = ac.try_find_overlapping(inp, &mut st);
            assert!(r.is_err() == want, "try_find_overlapping rejection differs from the rule");
            core::mem::forget(r);
        }
        _ => {
            let r = ac.try_find_overlapping_iter(inp);
            assert!(r.is_err() == want, "try_find_overlapping_iter rejection differs from the rule");
            core::mem::forget(r);
        }
    }
    cover!(an, "anchored request");
    cover!(!an, "unanchored request");
}

/// Stream entry point (always an unanchored request): the constructor's
/// verdict. (What a constructed stream iterator yields is C07's subject.)
#[cfg(kani)]
pub fn reject_stream<C: Case>(ac: &AhoCorasick) {
    aho_corasick::verif::buffer::set_spare_capacity(Some(1));
    let hay: [u8; 1] = any();
    let has_empty = C::NPATS > 0 && C::MINLEN == 0;
    let r = ac.try_stream_find_iter(&hay[..]);
    assert!(r.is_err() == rejected(C::SK, C::MK, has_empty, false, API_STREAM), "try_stream_find_iter rejection differs from the rule");
    core::mem::forget(r);
}

/// Replace entry point (always an unanchored request) on an empty haystack:
/// only the acceptance decision is exercised here (C12 decides the output).
#[cfg(kani)]
pub fn reject_replace<C: Case>(ac: &AhoCorasick) {
    let has_empty = C::NPATS > 0 && C::MINLEN == 0;
    let hay: [u8; 0] = [];
    let mut dst: Vec<u8> = Vec::new();
    let r = ac.try_replace_all_with_bytes(&hay[..], &mut dst, |_, _, _| true);
    assert!(r.is_err() == rejected(C::SK, C::MK, has_empty, false, API_REPLACE), "try_replace_all_with_bytes rejection differs from the rule");
    core::mem::forget(r);
    core::mem::forget(dst);
}

/// Infallible APIs in an accepted configuration never panic; in a rejected
/// configuration they never return (the harness is `should_panic` and the
/// "returned normally" witness must be unsatisfiable). REJ selects the half.
#[cfg(kani)]
pub fn reject_infallible<C: Case, const N: usize, const API: u8, const REJ: bool, const SP: bool>(ac: &AhoCorasick) {
    let hay: [u8; N] = any();
    let an: bool = any();
    let has_empty = C::NPATS > 0 && C::MINLEN == 0;
    let (s, e) = if SP { any_span_or_done(N) } else { (0, N) };
    let inp = Input::new(&hay[..]).span(s..e).anchored(anch(an));
    assume(rejected(C::SK, C::MK, has_empty, an, if API == API_IS_MATCH { API_FIND } else { API }) == REJ);
    match API {
        API_IS_MATCH => {
            let _ = ac.is_match(inp);
        }
        API_FIND => {
            let _ = ac.find(inp);
        }
        API_ITER => {
            let it = ac.find_iter(inp);
            core::mem::forget(it);
        }
        API_OVERLAPPING => {
            let mut st = OverlappingState::start();
            ac.find_overlapping(inp, &mut st);
        }
        _ => {
            let it = ac.find_overlapping_iter(inp);
            core::mem::forget(it);
        }
    }
    cover!(true, "returned normally");
}

/// C11 unit: the builders' letter flip, for all 256 byte values.
#[cfg(kani)]
pub fn opp_case() {
    let b: u8 = any();
    let got = aho_corasick::verif::prefilter::opposite_case(b);
    let want = if b >= b'A' && b <= b'Z' {
        b + 32
    } else if b >= b'a' && b <= b'z' {
        b - 32
    } else {
        b
    };
    assert!(got == want, "opposite_ascii_case flips something other than ASCII letters");
    cover!(got != b, "a letter is flipped");
    cover!(got == b, "a non-letter is unchanged");
}

// ---------------------------------------------------------------------------
// C06/C15: packed searchers

use crate::PackedCase;
use aho_corasick::Span;

#[inline(always)]
fn wellformed(m: &Match, n: usize, npats: usize) -> bool {
    m.start() <= m.end() && m.end() <= n && m.pattern().as_usize() < npats
}

/// Packed `find_in` on an exactly sized haystack vs the leftmost definition.
#[cfg(kani)]
pub fn pk_find<P: PackedCase, const N: usize>() {
    let srch = P::searcher();
    let hay: [u8; N] = any();
    let (s, e) = any_span(N);
    let got = srch.find_in(&hay[..], Span { start: s, end: e });
    let want = oracle::leftmost(P::pats(), &hay[..], s, e, P::KIND, false, false);
    assert!(same(got, want), "packed search differs from the leftmost definition");
    if let Some(m) = got {
        assert!(wellformed(&m, N, P::NPATS), "malformed match");
        assert!(m.start() >= s && m.end() <= e, "match outside the span");
    }
    cover!(got.is_some(), "a match is found");
    cover!(got.is_none(), "no match is found");
    cover!(got.is_some() && got.unwrap().start() > s, "match after skipping bytes");
    core::mem::forget(srch);
}

/// Packed iterator by K=2 induction over the span start.
#[cfg(kani)]
pub fn pk_iter2<P: PackedCase, const N: usize>() {
    let srch = P::searcher();
    let hay: [u8; N] = any();
    let (s, e) = any_span(N);
    let mut it = aho_corasick::verif::packed::api::find_iter_at(&srch, &hay[..], Span { start: s, end: e });
    let g1 = it.next();
    let w1 = oracle::leftmost(P::pats(), &hay[..], s, e, P::KIND, false, false);
    assert!(same(g1, w1), "first packed iterator item differs from the definition");
    if let Some((_, _, e1)) = w1 {
        let g2 = it.next();
        let w2 = oracle::leftmost(P::pats(), &hay[..], e1, e, P::KIND, false, false);
        assert!(same(g2, w2), "second packed iterator item differs from the definition");
        cover!(g2.is_some(), "two items");
    }
    core::mem::forget(it);
    core::mem::forget(srch);
}

/// Packed span relation (C10): bytes outside the span are irrelevant and the
/// result equals the search of the sub-slice.
#[cfg(kani)]
pub fn pk_span<P: PackedCase, const N: usize>() {
    let srch = P::searcher();
    let hay: [u8; N] = any();
    let other: [u8; N] = any();
    let (s, e) = any_span(N);
    let mut sub = [0u8; N];
    let mut mix = [0u8; N];
    let mut i = 0;
    while i < N {
        if i < e - s {
            sub[i] = hay[s + i];
        }
        mix[i] = if i >= s && i < e { hay[i] } else { other[i] };
        i += 1;
    }
    let r1 = srch.find_in(&hay[..], Span { start: s, end: e });
    let r2 = srch.find_in(&sub[..e - s], Span { start: 0, end: e - s });
    let r3 = srch.find_in(&mix[..], Span { start: s, end: e });
    match (r1, r2) {
        (None, None) => {}
        (Some(m1), Some(m2)) => assert!(
            m1.pattern() == m2.pattern() && m1.start() == m2.start() + s && m1.end() == m2.end() + s,
            "packed span search differs from sub-slice search"
        ),
        _ => assert!(false, "packed span search differs from sub-slice search"),
    }
    assert!(r1 == r3, "bytes outside the span change the packed result");
    cover!(r1.is_some() && s > 0 && e < N, "match in an interior span");
    core::mem::forget(srch);
}

/// Teddy on an exactly sized haystack of LEN bytes whose content is a pad
/// byte except for a symbolic window [OFF, OFF+W); the span start is symbolic
/// below the window. Every raw-pointer load is checked against the exact
/// allocation (C15), the result against the definition (C06).
#[cfg(kani)]
pub fn pk_teddy<P: PackedCase, const LEN: usize, const OFF: usize, const W: usize, const PAD: u8>() {
    let mut hay = [PAD; LEN];
    let w: [u8; W] = any();
    let mut i = 0;
    while i < W {
        hay[OFF + i] = w[i];
        i += 1;
    }
    // The span start is a constant (SPAN_START, default 0): with a symbolic start CBMC also
    // explores the Rabin-Karp fallback for spans below the minimum length on every path,
    // which alone exhausted 20 GB. The fallback has its own (Rabin-Karp) harnesses.
    let s: usize = 0;
    let got = P::find_in(&hay[..], Span { start: s, end: LEN });
    let want = oracle::leftmost(P::pats(), &hay[..], s, LEN, P::KIND, false, false);
    assert!(same(got, want), "Teddy search differs from the leftmost definition");
    if let Some(m) = got {
        assert!(wellformed(&m, LEN, P::NPATS), "malformed match");
    }
    cover!(got.is_some() && got.unwrap().start() >= OFF, "a match inside the window");
    cover!(got.is_none() || got.unwrap().start() < OFF, "no match inside the window");
}

/// C10: Teddy on a span that ends inside the haystack. The haystack has LEN
/// bytes, the span is 0..END (END >= the searcher's minimum length, so the
/// vector code runs), and the symbolic window may straddle END: an occurrence
/// that crosses or lies beyond END must not be reported (seeded change C10c).
#[cfg(kani)]
pub fn pk_teddy_end<P: PackedCase, const LEN: usize, const END: usize, const OFF: usize, const W: usize, const PAD: u8>() {
    let mut hay = [PAD; LEN];
    let w: [u8; W] = any();
    let mut i = 0;
    while i < W {
        hay[OFF + i] = w[i];
        i += 1;
    }
    let got = P::find_in(&hay[..], Span { start: 0, end: END });
    let want = oracle::leftmost(P::pats(), &hay[..], 0, END, P::KIND, false, false);
    assert!(same(got, want), "Teddy search on a span ending inside the haystack differs from the leftmost definition");
    if let Some(m) = got {
        assert!(wellformed(&m, END, P::NPATS), "malformed match or match beyond the span end");
    }
    cover!(got.is_some(), "a match inside the span");
    cover!(got.is_none() && w[W - 1] == P::pats()[0][P::pats()[0].len() - 1], "no match although the window ends with a pattern's last byte");
}

/// C06/C15: the candidate-verification primitives of every packed variant
/// (`is_prefix` for Rabin-Karp, `Pattern::is_prefix_raw` for Teddy; both end in
/// the hand-written `is_equal_raw`), on an exactly sized haystack object of HN
/// bytes and an exactly sized needle of PN bytes, from a symbolic offset:
/// result = bytewise prefix test, and every load stays inside the two objects.
#[cfg(kani)]
pub fn pk_prim_nc<const HN: usize, const PN: usize>() -> (bool, usize) {
    let hay: [u8; HN] = any();
    let needle: [u8; PN] = any();
    let from: usize = any();
    assume(from <= HN);
    let mut want = PN <= HN - from;
    let mut i = 0;
    while i < PN {
        if want && hay[from + i] != needle[i] {
            want = false;
        }
        i += 1;
    }
    let g1 = aho_corasick::verif::packed::pattern::prim_is_prefix(&hay[..], from, &needle[..]);
    let g2 = aho_corasick::verif::packed::pattern::prim_is_prefix_raw(&hay[..], from, &needle[..]);
    assert!(g1 == want, "is_prefix differs from the bytewise prefix test");
    assert!(g2 == want, "Pattern::is_prefix_raw differs from the bytewise prefix test");
    (want, from)
}

#[cfg(kani)]
pub fn pk_prim<const HN: usize, const PN: usize>() {
    let (want, from) = pk_prim_nc::<HN, PN>();
    cover!(want && from + PN == HN, "a needle ending flush with the haystack");
    cover!(!want && PN <= HN - from, "a mismatch");
}

// ---------------------------------------------------------------------------
// C07/C08/C18: stream search

/// Environment: a reader over `data` whose every `read` returns a symbolic
/// number of bytes in `1..=min(remaining, buf.len())` (0 only at end of data,
/// as `io::Read` documents), and that fails once if `fail_at` equals the index
/// of the call.
pub struct SymReader<'a> {
    pub data: &'a [u8],
    pub pos: usize,
    pub calls: usize,
    pub fail_at: usize,
    pub failed: bool,
    pub eof_seen: bool,
}

impl<'a> SymReader<'a> {
    pub fn new(data: &'a [u8], pos: usize, fail_at: usize) -> SymReader<'a> {
        SymReader { data, pos, calls: 0, fail_at, failed: false, eof_seen: false }
    }
}

impl<'a> std::io::Read for SymReader<'a> {
    fn read(&mut self, buf: &mut [u8]) -> std::io::Result<usize> {
        let call = self.calls;
        self.calls += 1;
        if call == self.fail_at {
            self.failed = true;
            return Err(std::io::Error::from(std::io::ErrorKind::Other));
        }
        let remaining = self.data.len() - self.pos;
        if remaining == 0 || buf.len() == 0 {
            if remaining == 0 {
                self.eof_seen = true;
            }
            return Ok(0);
        }
        #[cfg(kani)]
        let want: usize = any();
        #[cfg(not(kani))]
        let want: usize = 1;
        let mut n = want;
        if n == 0 {
            n = 1;
        }
        if n > remaining {
            n = remaining;
        }
        if n > buf.len() {
            n = buf.len();
        }
        let mut i = 0;
        while i < n {
            buf[i] = self.data[self.pos + i];
            i += 1;
        }
        self.pos += n;
        Ok(n)
    }
}

/// C07/C08/C18: inductive step of the stream chunk iterator.
///
/// Pre-state: an arbitrary iterator state satisfying the invariant `Inv`
/// (DESIGN.md C07) over a symbolic stream of T bytes, with the reader at
/// offset r. One `next()` is executed with a symbolic read schedule (and,
/// when FAULT, a read failure at a symbolic call). The yielded chunk must be
/// the next piece of the specification's chunk sequence and `Inv` must hold
/// afterwards.
#[cfg(kani)]
pub fn stream_step<C: Case, A: Automaton, const T: usize, const CAP: usize, const FAULT: bool>(aut: &A) {
    use aho_corasick::verif::automaton as hk;
    let min = C::MAXLEN;
    let hay: [u8; T] = any();
    let r: usize = any();
    let end: usize = any();
    let bpos: usize = any();
    let rpos: usize = any();
    let m0: usize = any();
    assume(r <= T && end <= CAP && end <= r && bpos <= end && rpos <= bpos);
    let base = r - end;
    let abs = base + bpos;
    let e0 = base + rpos;
    assume(m0 <= e0);
    assume(base == 0 || bpos >= min);
    // sid = walk(hay[m0..abs]) with no match state strictly inside
    let start = aut.start_state(Anchored::No).unwrap();
    let mut sid = start;
    let mut j = 0;
    while j < T {
        if j >= m0 && j < abs {
            if j > m0 {
                assume(!aut.is_match(sid));
            }
            sid = aut.next_state(Anchored::No, sid, hay[j]);
        }
        j += 1;
    }
    // a match state is only ever current at the position where it was entered
    // and with the bytes before the match start already (or about to be) emitted
    let nm = oracle::standard(C::pats(), &hay[..], m0, T, false, C::CI);
    if let Some((_, ns, _)) = nm {
        assume(ns >= e0);
    }
    let mut bufdata = vec![0u8; CAP];
    let mut i = 0;
    while i < CAP {
        if i < end {
            bufdata[i] = hay[base + i];
        }
        i += 1;
    }
    let fail_at: usize = if FAULT { any() } else { usize::MAX };
    let mut rdr = SymReader::new(&hay[..], r, fail_at);
    let mut out = [0u8; CAP];
    let post = hk::step(aut, &mut rdr, bufdata, min, end, sid, abs, bpos, rpos, &mut out);
    let r2 = rdr.pos;
    // ---- post-state invariant
    assert!(post.buf_end <= CAP && post.buf_end <= r2, "Inv: buffer end");
    assert!(post.buffer_pos <= post.buf_end && post.buffer_reported_pos <= post.buffer_pos, "Inv: positions ordered");
    let base2 = r2 - post.buf_end;
    assert!(post.absolute_pos == base2 + post.buffer_pos, "Inv: absolute position");
    assert!(base2 == 0 || post.buffer_pos >= min, "Inv: rolled buffer keeps min bytes");
    let mut k = 0;
    while k < CAP {
        if k < post.buf_end {
            assert!(out[k] == hay[base2 + k], "Inv: buffer content is the stream suffix");
        }
        k += 1;
    }
    let e2 = base2 + post.buffer_reported_pos;
    let m2 = match post.kind {
        2 => post.mat.unwrap().end(),
        _ => m0,
    };
    assert!(m2 <= e2, "Inv: emitted prefix covers the last match");
    let mut sid2 = start;
    let mut ok_inside = true;
    let mut j = 0;
    while j < T {
        if j >= m2 && j < post.absolute_pos {
            if j > m2 && aut.is_match(sid2) {
                ok_inside = false;
            }
            sid2 = aut.next_state(Anchored::No, sid2, hay[j]);
        }
        j += 1;
    }
    assert!(sid2 == post.sid && ok_inside, "Inv: automaton state is the walk since the last match");
    // ---- the yielded item
    match post.kind {
        2 => {
            let m = post.mat.unwrap();
            assert!(same(Some(m), nm), "stream match differs from the in-memory definition");
            assert!(base2 + post.chunk_start == e0 && e0 == m.start() && post.chunk_len == m.end() - m.start(), "match chunk is not exactly the matched bytes");
            assert!(e2 == m.end(), "emitted prefix after a match");
        }
        1 => {
            assert!(base2 + post.chunk_start == e0, "non-match chunk does not start at the emitted prefix (bytes lost or repeated)");
            assert!(post.chunk_len > 0, "empty non-match chunk");
            assert!(e2 == e0 + post.chunk_len, "emitted prefix after a non-match chunk");
            assert!(e2 <= r2, "chunk beyond the bytes read");
            match nm {
                Some((_, ns, _)) => assert!(e2 <= ns, "non-match chunk contains bytes of the next match"),
                None => {}
            }
        }
        0 => {
            assert!(rdr.eof_seen, "end of stream reported although the reader did not report it");
            assert!(nm.is_none(), "stream search ends before the last match");
            assert!(e0 == T, "stream ends with bytes never emitted");
        }
        _ => {
            assert!(FAULT && rdr.failed, "error item without a reader failure");
            assert!(e2 == e0, "emitted prefix moves on an error item");
        }
    }
    if FAULT && rdr.failed {
        assert!(post.kind == 3, "reader failure not reported as an error item");
    }
    cover!(post.kind == 2, "a match chunk");
    cover!(post.kind == 1, "a non-match chunk");
    cover!(post.kind == 0, "end of stream");
    cover!(post.kind == 2 && base2 > 0, "a match after the buffer rolled");
    cover!(post.kind == 2 && base2 > base, "a match in the call that rolled the buffer");
    if FAULT {
        cover!(post.kind == 3 && r2 > r, "an error after some bytes were read in the same call");
    }
}

/// The initial state satisfies `Inv` trivially; this harness runs the real
/// constructor and the first K calls and checks the yielded matches against
/// the specification (complete run, short streams).
#[cfg(kani)]
pub fn stream_run<C: Case, A: Automaton, const T: usize, const K: usize>(aut: &A) {
    aho_corasick::verif::buffer::set_spare_capacity(Some(1));
    let hay: [u8; T] = any();
    let rdr = SymReader::new(&hay[..], 0, usize::MAX);
    let mut it = aut.try_stream_find_iter(rdr).unwrap();
    let mut pos = 0usize;
    let mut n = 0;
    let mut done = false;
    while n < K {
        if !done {
            let got = it.next();
            let want = oracle::standard(C::pats(), &hay[..], pos, T, false, C::CI);
            match (got, want) {
                (None, None) => done = true,
                (Some(Ok(m)), Some((p, s, e))) => {
                    assert!(m.pattern().as_usize() == p && m.start() == s && m.end() == e, "stream match differs from the in-memory iterator");
                    pos = e;
                }
                _ => {
                    assert!(false, "stream iterator and in-memory iterator disagree on the number of matches");
                    done = true;
                }
            }
        }
        n += 1;
    }
    cover!(done && pos > 0, "a complete run with a match");
    core::mem::forget(it);
}

/// Sink that appends into a fixed array and may fail at a symbolic call.
pub struct SymWriter<const W: usize> {
    pub out: [u8; W],
    pub len: usize,
    pub calls: usize,
    pub fail_at: usize,
    pub failed: bool,
    pub overflow: bool,
    /// accept only a symbolic part of each write (short writes)
    pub partial: bool,
}

impl<const W: usize> std::io::Write for SymWriter<W> {
    fn write(&mut self, buf: &[u8]) -> std::io::Result<usize> {
        let call = self.calls;
        self.calls += 1;
        if call == self.fail_at {
            self.failed = true;
            return Err(std::io::Error::from(std::io::ErrorKind::Other));
        }
        // io::Write allows a short write: accept a symbolic count in 1..=buf.len()
        #[cfg(kani)]
        let want: usize = if self.partial { any() } else { usize::MAX };
        #[cfg(not(kani))]
        let want: usize = usize::MAX;
        let mut n = want;
        if n == 0 {
            n = 1;
        }
        if n > buf.len() {
            n = buf.len();
        }
        let mut i = 0;
        while i < n {
            if self.len < W {
                self.out[self.len] = buf[i];
                self.len += 1;
            } else {
                self.overflow = true;
            }
            i += 1;
        }
        Ok(n)
    }
    fn flush(&mut self) -> std::io::Result<()> {
        Ok(())
    }
}

/// C08/C18: complete stream replacement run (closure variant) on a short
/// stream: output equals the in-memory replacement; the closure receives the
/// matched bytes and the absolute match; with WFAULT a writer failure at a
/// symbolic call surfaces as `Err` and what was written is a prefix of the
/// fault-free output.
#[cfg(kani)]
pub fn stream_replace<C: Case, A: Automaton, const T: usize, const W: usize, const WFAULT: bool, const SPARE: usize>(aut: &A) {
    aho_corasick::verif::buffer::set_spare_capacity(Some(SPARE));
    let hay: [u8; T] = any();
    let rdr = SymReader::new(&hay[..], 0, usize::MAX);
    let fail_at: usize = if WFAULT { any() } else { usize::MAX };
    let mut wtr = SymWriter::<W> { out: [0; W], len: 0, calls: 0, fail_at, failed: false, overflow: false, partial: !WFAULT && T >= 2 };
    let mut closure_ok = true;
    let hayref = &hay;
    let res = aut.try_stream_replace_all_with(rdr, &mut wtr, |m, bytes, w| {
        // the closure must be handed exactly the matched bytes
        if bytes.len() != m.end() - m.start() || m.end() > T {
            closure_ok = false;
        } else {
            let mut i = 0;
            while i < bytes.len() {
                if bytes[i] != hayref[m.start() + i] {
                    closure_ok = false;
                }
                i += 1;
            }
        }
        // replacement: '0' + pattern id, twice for odd ids (different lengths)
        let tag = b'0' + m.pattern().as_usize() as u8;
        std::io::Write::write_all(w, &[tag])?;
        if m.pattern().as_usize() % 2 == 1 {
            std::io::Write::write_all(w, &[tag])?;
        }
        Ok(())
    });
    assert!(closure_ok, "replacement closure is not handed the matched bytes / absolute match");
    // specification output
    let mut want = [0u8; W];
    let mut nw = 0;
    let mut pos = 0;
    let mut k = 0;
    while k <= T {
        if let Some((p, s, e)) = oracle::standard(C::pats(), &hay[..], pos, T, false, C::CI) {
            let mut i = pos;
            while i < s {
                want[nw] = hay[i];
                nw += 1;
                i += 1;
            }
            want[nw] = b'0' + p as u8;
            nw += 1;
            if p % 2 == 1 {
                want[nw] = b'0' + p as u8;
                nw += 1;
            }
            pos = e;
        } else {
            let mut i = pos;
            while i < T {
                want[nw] = hay[i];
                nw += 1;
                i += 1;
            }
            pos = T + 1;
            k = T;
        }
        k += 1;
    }
    assert!(!wtr.overflow, "harness output array too small");
    if WFAULT && wtr.failed {
        assert!(res.is_err(), "writer failure not reported");
        assert!(wtr.len <= nw, "more bytes written than the fault-free output has");
    } else {
        assert!(res.is_ok(), "stream replacement failed without a fault");
        assert!(wtr.len == nw, "stream replacement output length differs from in-memory replacement");
    }
    let mut i = 0;
    while i < W {
        if i < wtr.len {
            assert!(wtr.out[i] == want[i], "stream replacement output differs from in-memory replacement");
        }
        i += 1;
    }
    cover!(nw != T, "a replacement changes the length");
    if WFAULT {
        cover!(wtr.failed && wtr.len > 0, "a writer failure after some output");
    }
    core::mem::forget(res);
}

/// C18 (writer side, slice-table variant): `try_stream_replace_all` (one
/// replacement per pattern) with a writer that fails at a symbolic call: the
/// failure surfaces as `Err`, the writer is not used again, and without a
/// failure the call returns `Ok` with every byte handed to the caller's writer
/// before it returns.
#[cfg(kani)]
pub fn stream_wfault_tbl<C: Case, A: Automaton, const T: usize, const W: usize>(aut: &A) {
    aho_corasick::verif::buffer::set_spare_capacity(Some(1));
    let hay: [u8; T] = any();
    let rdr = SymReader::new(&hay[..], 0, usize::MAX);
    let fail_at: usize = any();
    let mut wtr = SymWriter::<W> { out: [0; W], len: 0, calls: 0, fail_at, failed: false, overflow: false, partial: false };
    let table: [&[u8]; 2] = [b"0", b"1"];
    assert!(C::NPATS == 2);
    let res = aut.try_stream_replace_all(rdr, &mut wtr, &table[..]);
    if wtr.failed {
        assert!(res.is_err(), "writer failure not reported");
        assert!(wtr.calls == fail_at + 1, "the writer is used again after it failed");
    } else {
        assert!(res.is_ok(), "stream replacement failed without a fault");
        assert!(wtr.len == T, "bytes are still held back when stream replacement returns Ok");
    }
    cover!(wtr.failed, "a writer failure");
    cover!(!wtr.failed, "no failure");
    core::mem::forget(res);
}

// ---------------------------------------------------------------------------
// C12: replace_all

/// `try_replace_all_with_bytes` vs the splice specification. The closure
/// appends a tag (1 byte for even pattern ids, 2 bytes for odd ones) and
/// returns `false` on its `stop`-th call (symbolic).
#[cfg(kani)]
pub fn replace_bytes<C: Case, A: Automaton, const N: usize, const W: usize>(aut: &A) {
    let hay: [u8; N] = any();
    let stop: usize = any();
    let mut dst: Vec<u8> = Vec::with_capacity(W);
    let mut calls = 0usize;
    let mut handed_ok = true;
    let hayref = &hay;
    aut.try_replace_all_with_bytes(&hay[..], &mut dst, |m, bytes, dst| {
        if bytes.len() != m.end() - m.start() || bytes.as_ptr() != hayref[m.start()..].as_ptr() {
            handed_ok = false;
        }
        // (extend_from_slice, not push: the harness replaces Vec's append worker by a
        // no-growth stub; push would bring the reallocation path back)
        let tag = [b'0' + m.pattern().as_usize() as u8];
        dst.extend_from_slice(&tag);
        if m.pattern().as_usize() % 2 == 1 {
            dst.extend_from_slice(&tag);
        }
        calls += 1;
        calls != stop
    })
    .unwrap();
    assert!(handed_ok, "closure is not handed the matched bytes");
    // specification
    let mut want = [0u8; W];
    let mut nw = 0;
    let mut pos = 0;
    let mut last: Option<usize> = None;
    let mut copied_from = 0;
    let mut ncalls = 0usize;
    let mut k = 0;
    let mut go = true;
    while k <= N {
        if go {
            match oracle::iter_next(C::pats(), &hay[..], pos, N, last, C::MK, false, C::CI) {
                Some((p, s, e)) => {
                    let mut i = copied_from;
                    while i < s {
                        want[nw] = hay[i];
                        nw += 1;
                        i += 1;
                    }
                    want[nw] = b'0' + p as u8;
                    nw += 1;
                    if p % 2 == 1 {
                        want[nw] = b'0' + p as u8;
                        nw += 1;
                    }
                    copied_from = e;
                    pos = e;
                    last = Some(e);
                    ncalls += 1;
                    if ncalls == stop {
                        go = false;
                    }
                }
                None => go = false,
            }
        }
        k += 1;
    }
    let mut i = copied_from;
    while i < N {
        want[nw] = hay[i];
        nw += 1;
        i += 1;
    }
    assert!(dst.len() == nw, "replace_all output length differs from the splice definition");
    let mut i = 0;
    while i < W {
        if i < nw {
            assert!(dst[i] == want[i], "replace_all output differs from the splice definition");
        }
        i += 1;
    }
    cover!(ncalls >= 1 && ncalls == stop, "closure stops the replacement");
    cover!(ncalls >= 2, "two replacements");
    core::mem::forget(dst);
}

/// `try_replace_all_with` on a valid UTF-8 haystack: no panic, output is the
/// splice of the matches whose bounds are character boundaries, and it is
/// valid UTF-8.
#[cfg(kani)]
pub fn replace_str<C: Case, A: Automaton, const N: usize, const W: usize>(aut: &A) {
    let hay: [u8; N] = any();
    let n: usize = any();
    assume(n <= N);
    let st = core::str::from_utf8(&hay[..n]);
    assume(st.is_ok());
    let text = st.unwrap();
    let mut dst = String::with_capacity(W);
    aut.try_replace_all_with(text, &mut dst, |m, _s, dst| {
        let tag = [b'0' + m.pattern().as_usize() as u8];
        dst.push_str(unsafe { core::str::from_utf8_unchecked(&tag) });
        true
    })
    .unwrap();
    // specification
    let boundary = |i: usize| -> bool { i == n || (i < n && (hay[i] as i8) >= -0x40) };
    let mut want = [0u8; W];
    let mut nw = 0;
    let mut pos = 0;
    let mut last: Option<usize> = None;
    let mut copied_from = 0;
    let mut k = 0;
    let mut go = true;
    while k <= N {
        if go {
            match oracle::iter_next(C::pats(), &hay[..], pos, n, last, C::MK, false, C::CI) {
                Some((p, s, e)) => {
                    if boundary(s) && boundary(e) {
                        let mut i = copied_from;
                        while i < s {
                            want[nw] = hay[i];
                            nw += 1;
                            i += 1;
                        }
                        want[nw] = b'0' + p as u8;
                        nw += 1;
                        copied_from = e;
                    }
                    pos = e;
                    last = Some(e);
                }
                None => go = false,
            }
        }
        k += 1;
    }
    let mut i = copied_from;
    while i < n {
        want[nw] = hay[i];
        nw += 1;
        i += 1;
    }
    let out = dst.as_bytes();
    assert!(out.len() == nw, "replace_all (str) output length differs from the splice definition");
    let mut i = 0;
    while i < W {
        if i < nw {
            assert!(out[i] == want[i], "replace_all (str) output differs from the splice definition");
        }
        i += 1;
    }
    cover!(n >= 2 && hay[0] >= 0xC2, "a multi-byte character in the haystack");
    cover!(nw < n + 1 && copied_from > 0, "a replacement happened");
    core::mem::forget(dst);
}

/// The abstract searcher of the compositional C12 harnesses: an arbitrary
/// (symbolic) search function on a haystack of N bytes - a search starting at
/// `s` reports nothing or any match `s <= start <= end <= N` of pattern 0 or 1.
#[cfg(kani)]
fn any_script<const N: usize>() -> aho_corasick::verif::automaton::ScriptAut {
    let mut table = [(false, 0u8, 0u8, 0u8); 8];
    let mut i = 0;
    while i <= N {
        let present: bool = any();
        let pid: u8 = any();
        let ms: u8 = any();
        let me: u8 = any();
        assume(pid < 2 && (ms as usize) >= i && ms <= me && (me as usize) <= N);
        table[i] = (present, pid, ms, me);
        i += 1;
    }
    aho_corasick::verif::automaton::ScriptAut { table, std: any() }
}

/// The iterator rule of the specification on the abstract searcher.
#[cfg(kani)]
fn script_next<const N: usize>(a: &aho_corasick::verif::automaton::ScriptAut, pos: usize, last: Option<usize>) -> Option<M> {
    let look = |p: usize| -> Option<M> {
        if p > N || !a.table[p].0 {
            None
        } else {
            Some((a.table[p].1 as usize, a.table[p].2 as usize, a.table[p].3 as usize))
        }
    };
    match look(pos) {
        Some((_, ms, me)) if ms == me && Some(me) == last => look(pos + 1),
        m => m,
    }
}

/// C12, compositional form: `try_replace_all_with_bytes` driven by the real
/// non-overlapping iterator over an ARBITRARY search function equals the
/// splice of the iterator's matches (closure stops at a symbolic call). With
/// C01/C02 (the real `try_find` is the defined search function) this gives
/// the property for every pattern list.
#[cfg(kani)]
pub fn replace_bytes_script<const N: usize, const W: usize>() {
    assert!(N < 8);
    let aut = any_script::<N>();
    let hay: [u8; N] = any();
    let stop: usize = any();
    let mut dst: Vec<u8> = Vec::with_capacity(W);
    let mut calls = 0usize;
    let mut handed_ok = true;
    let hayref = &hay;
    aut.try_replace_all_with_bytes(&hay[..], &mut dst, |m, bytes, dst| {
        if bytes.len() != m.end() - m.start() || bytes.as_ptr() != hayref[m.start()..].as_ptr() {
            handed_ok = false;
        }
        let tag = [b'0' + m.pattern().as_usize() as u8];
        dst.extend_from_slice(&tag);
        if m.pattern().as_usize() % 2 == 1 {
            dst.extend_from_slice(&tag);
        }
        calls += 1;
        calls != stop
    })
    .unwrap();
    assert!(handed_ok, "closure is not handed the matched bytes");
    let mut want = [0u8; W];
    let mut nw = 0;
    let mut pos = 0;
    let mut last: Option<usize> = None;
    let mut copied_from = 0;
    let mut ncalls = 0usize;
    let mut k = 0;
    let mut go = true;
    while k <= N + 1 {
        if go {
            match script_next::<N>(&aut, pos, last) {
                Some((p, s, e)) => {
                    let mut i = copied_from;
                    while i < s {
                        want[nw] = hay[i];
                        nw += 1;
                        i += 1;
                    }
                    want[nw] = b'0' + p as u8;
                    nw += 1;
                    if p % 2 == 1 {
                        want[nw] = b'0' + p as u8;
                        nw += 1;
                    }
                    copied_from = e;
                    pos = e;
                    last = Some(e);
                    ncalls += 1;
                    if ncalls == stop {
                        go = false;
                    }
                }
                None => go = false,
            }
        }
        k += 1;
    }
    let mut i = copied_from;
    while i < N {
        want[nw] = hay[i];
        nw += 1;
        i += 1;
    }
    assert!(dst.len() == nw, "replace_all output length differs from the splice definition");
    let mut i = 0;
    while i < W {
        if i < nw {
            assert!(dst[i] == want[i], "replace_all output differs from the splice definition");
        }
        i += 1;
    }
    cover!(ncalls >= 1 && ncalls == stop, "closure stops the replacement");
    cover!(ncalls >= 2, "two replacements");
    cover!(ncalls >= 2 && copied_from < N, "two replacements and a tail");
    core::mem::forget(dst);
}

/// C12, compositional form, `&str` variant: on a valid UTF-8 haystack and an
/// arbitrary search function (matches may split characters) the routine does
/// not panic, skips exactly the matches whose bounds are not character
/// boundaries, and yields the splice of the others (valid UTF-8 follows: the
/// output is a concatenation of whole characters and the closure's strings).
#[cfg(kani)]
pub fn replace_str_script<const N: usize, const W: usize>() {
    assert!(N < 8);
    let aut = any_script::<N>();
    let hay: [u8; N] = any();
    let st = core::str::from_utf8(&hay[..]);
    assume(st.is_ok());
    let text = st.unwrap();
    let stop: usize = any();
    let mut calls = 0usize;
    let mut dst = String::with_capacity(W);
    aut.try_replace_all_with(text, &mut dst, |m, _s, dst| {
        let tag = [b'0' + m.pattern().as_usize() as u8];
        dst.push_str(unsafe { core::str::from_utf8_unchecked(&tag) });
        calls += 1;
        calls != stop
    })
    .unwrap();
    let boundary = |i: usize| -> bool { i == N || (i < N && (hay[i] as i8) >= -0x40) };
    let mut want = [0u8; W];
    let mut nw = 0;
    let mut pos = 0;
    let mut last: Option<usize> = None;
    let mut copied_from = 0;
    let mut ncalls = 0usize;
    let mut skipped = 0usize;
    let mut k = 0;
    let mut go = true;
    while k <= N + 1 {
        if go {
            match script_next::<N>(&aut, pos, last) {
                Some((p, s, e)) => {
                    if boundary(s) && boundary(e) {
                        let mut i = copied_from;
                        while i < s {
                            want[nw] = hay[i];
                            nw += 1;
                            i += 1;
                        }
                        want[nw] = b'0' + p as u8;
                        nw += 1;
                        copied_from = e;
                        ncalls += 1;
                        if ncalls == stop {
                            go = false;
                        }
                    } else {
                        skipped += 1;
                    }
                    pos = e;
                    last = Some(e);
                }
                None => go = false,
            }
        }
        k += 1;
    }
    let mut i = copied_from;
    while i < N {
        want[nw] = hay[i];
        nw += 1;
        i += 1;
    }
    let out = dst.as_bytes();
    assert!(out.len() == nw, "replace_all (str) output length differs from the splice definition");
    let mut i = 0;
    while i < W {
        if i < nw {
            assert!(out[i] == want[i], "replace_all (str) output differs from the splice definition");
        }
        i += 1;
    }
    cover!(skipped > 0 && ncalls > 0, "a skipped match and a replacement");
    cover!(skipped > 0 && copied_from == 0 && N >= 3, "only skipped matches");
    core::mem::forget(dst);
}

// ---------------------------------------------------------------------------
// C17: purity (sequential histories)

/// A search (any anchoring, accepted or rejected) is unaffected by an
/// arbitrary earlier search on the same value.
#[cfg(kani)]
pub fn purity<C: Case, A: Automaton, const N: usize>(aut: &A) {
    let h1: [u8; N] = any();
    let h2: [u8; N] = any();
    let (s1, e1) = any_span(N);
    let (s2, e2) = any_span(N);
    let a1: bool = any();
    let a2: bool = any();
    let key = |r: &Result<Option<Match>, aho_corasick::MatchError>| -> (bool, Option<Match>) {
        match r {
            Ok(m) => (true, *m),
            Err(_) => (false, None),
        }
    };
    let r = aut.try_find(&Input::new(&h2[..]).span(s2..e2).anchored(anch(a2)));
    let fresh = key(&r);
    core::mem::forget(r);
    // an unrelated search ...
    let r = aut.try_find(&Input::new(&h1[..]).span(s1..e1).anchored(anch(a1)));
    core::mem::forget(r);
    // ... must not change the answer (including whether it is rejected)
    let r = aut.try_find(&Input::new(&h2[..]).span(s2..e2).anchored(anch(a2)));
    let after = key(&r);
    core::mem::forget(r);
    assert!(fresh == after, "a search result depends on an earlier search");
    cover!(fresh.1.is_some(), "a match");
    cover!(!fresh.0, "a rejected request");
}

/// A clone of a used value answers like the original (same request).
#[cfg(kani)]
pub fn purity_clone<C: Case, A: Automaton + Clone, const N: usize>(aut: &A) {
    let h: [u8; N] = any();
    let a: bool = any();
    let key = |r: &Result<Option<Match>, aho_corasick::MatchError>| -> (bool, Option<Match>) {
        match r {
            Ok(m) => (true, *m),
            Err(_) => (false, None),
        }
    };
    let r = aut.try_find(&Input::new(&h[..]).anchored(anch(a)));
    let orig = key(&r);
    core::mem::forget(r);
    let cl = aut.clone();
    let r = cl.try_find(&Input::new(&h[..]).anchored(anch(a)));
    let on_clone = key(&r);
    core::mem::forget(r);
    assert!(orig == on_clone, "a clone answers differently");
    core::mem::forget(cl);
}

/// Two searches over ONE AND THE SAME haystack object (different spans and
/// anchoring): the second answers as the definition says, whatever the first
/// looked at (hidden state keyed by the haystack address, e.g. a "last scan"
/// memo in a prefilter, shows only this way).
#[cfg(kani)]
pub fn purity_same<C: Case, A: Automaton, const N: usize>(aut: &A) {
    let h: [u8; N] = any();
    let (s1, e1) = any_span(N);
    let (s2, e2) = any_span(N);
    let a1: bool = any();
    let a2: bool = any();
    let ok = |an: bool| C::SK == 0 || (C::SK == 1 && !an) || (C::SK == 2 && an);
    assume(ok(a1) && ok(a2));
    let r1 = aut.try_find(&Input::new(&h[..]).span(s1..e1).anchored(anch(a1))).unwrap();
    let r2 = aut.try_find(&Input::new(&h[..]).span(s2..e2).anchored(anch(a2))).unwrap();
    let w2 = oracle::find(C::pats(), &h[..], s2, e2, C::MK, a2, C::CI);
    assert!(same(r2, w2), "a search after another search over the same haystack differs from the definition");
    cover!(r1.is_some() && r2.is_some() && s2 < s1, "second search starts earlier than the first and matches");
    cover!(r1.is_some() && r2.is_some() && r1 != r2, "two different matches");
}

// ---------------------------------------------------------------------------
// C19: bounded work

/// After one search: at most one transition per byte of the span, positions
/// strictly increasing, failure-link traversals <= transitions (NFAs) and
/// none for the DFA.
#[cfg(kani)]
pub fn work<C: Case, A: Automaton, const N: usize, const AN: u8, const IS_DFA: bool>(aut: &A) {
    use aho_corasick::verif::count;
    let hay: [u8; N] = any();
    let (s, e) = any_span(N);
    let a = pick_anchored::<AN>();
    count::reset();
    #[cfg(kani)]
    memchr::model_scanned_reset();
    let got = aut.try_find(&Input::new(&hay[..]).span(s..e).anchored(anch(a))).unwrap();
    let (tr, fl, nonmono) = count::read();
    // prefilter work (observed through the memchr contract model): the prefilter is only ever
    // asked about the part of the span that is still unsearched - successive scans start at
    // non-decreasing offsets, and at one and the same offset at most twice (the scan before the
    // loop and the first one in it). A search that rescans searched bytes breaks this, which is
    // what makes prefilter work super-linear. (A byte-count bound is not used: with rare-byte
    // offsets the real search legitimately examines up to (offset+2) bytes per position.)
    #[cfg(kani)]
    {
        let (same_start_run, decreases) = memchr::model_scan_order();
        assert!(decreases == 0, "a prefilter scan starts before the previous one (searched bytes are rescanned)");
        assert!(same_start_run <= 2, "the prefilter rescans from the same offset more than twice");
        // ... and never about bytes outside the span: work stays proportional to the span
        let (lo, hi) = memchr::model_scan_range();
        let base = hay.as_ptr() as usize;
        assert!(lo == 0 || (lo >= base + s && hi <= base + e), "the prefilter scans bytes outside the span");
        cover!(lo != 0, "the prefilter scanned something");
        // a start-byte prefilter's scans are disjoint pieces of the span (a candidate is consumed by the
        // automaton before the next scan starts), so it examines every byte at most once - twice is the bound
        if C::PF >= 1 && C::PF <= 3 {
            assert!(memchr::model_scanned() <= 2 * (e - s) + 2, "a start-byte prefilter examines the span's bytes more than twice (candidate-free bytes are rescanned)");
        }
    }
    assert!(tr <= e - s, "more than one automaton transition per byte of the span");
    assert!(nonmono == 0, "the search position does not advance monotonically");
    assert!(fl <= tr, "more failure-link traversals than transitions");
    if IS_DFA {
        assert!(fl == 0, "a DFA search follows a failure link");
    }
    cover!(tr == e - s && tr > 0, "every byte of the span is consumed");
    if !IS_DFA {
        cover!(fl > 0, "a failure link is followed");
    }
}

/// Same for one overlapping step from the fresh state.
#[cfg(kani)]
pub fn work_ov<C: Case, A: Automaton, const N: usize, const IS_DFA: bool>(aut: &A) {
    use aho_corasick::verif::count;
    let hay: [u8; N] = any();
    let (s, e) = any_span(N);
    count::reset();
    #[cfg(kani)]
    memchr::model_scanned_reset();
    let mut st = OverlappingState::start();
    aut.try_find_overlapping(&Input::new(&hay[..]).span(s..e), &mut st).unwrap();
    let (tr, fl, nonmono) = count::read();
    #[cfg(kani)]
    {
        let (same_start_run, decreases) = memchr::model_scan_order();
        assert!(decreases == 0, "a prefilter scan starts before the previous one (searched bytes are rescanned)");
        assert!(same_start_run <= 2, "the prefilter rescans from the same offset more than twice");
        let (lo, hi) = memchr::model_scan_range();
        let base = hay.as_ptr() as usize;
        assert!(lo == 0 || (lo >= base + s && hi <= base + e), "the prefilter scans bytes outside the span");
        if C::PF >= 1 && C::PF <= 3 {
            assert!(memchr::model_scanned() <= 2 * (e - s) + 2, "a start-byte prefilter examines the span's bytes more than twice (candidate-free bytes are rescanned)");
        }
        cover!(lo != 0 && st.get_match().is_none(), "the prefilter scanned and nothing matched");
    }
    assert!(tr <= e - s, "more than one automaton transition per byte of the span");
    assert!(nonmono == 0, "the search position does not advance monotonically");
    assert!(fl <= tr, "more failure-link traversals than transitions");
    if IS_DFA {
        assert!(fl == 0, "a DFA search follows a failure link");
    }
}

/// Structural lemma behind the amortised bound: every failure link of the
/// noncontiguous NFA points to a strictly shallower state (so a traversal
/// gives back depth that only a transition can have added). States LO..HI.
#[cfg(kani)]
pub fn fail_depth<C: Case, const LO: usize, const HI: usize>() {
    let n = C::nnfa();
    let raw_fail = aho_corasick::verif::nnfa::fail_and_depth;
    let i: usize = any();
    assume(i >= LO && i < HI);
    let (_fail, depth, fdepth, is_start_or_sentinel, to_root) = raw_fail(&n, i);
    if !is_start_or_sentinel {
        // recorded depth = true depth - 1 for non-start states, so between two
        // non-start states the recorded values compare like the true ones
        assert!(to_root || fdepth < depth, "a failure link does not point to a strictly shallower state");
    }
    cover!(!is_start_or_sentinel && !to_root, "a failure link to a non-root state");
    core::mem::forget(n);
}

// ---------------------------------------------------------------------------
// Top-level `AhoCorasick` wrappers vs the low-level automaton (C04, C14)

/// `AhoCorasick::{is_match, find, try_find}` agree with existence and with
/// the definition (symbolic span, anchoring supported by the start kind).
#[cfg(kani)]
pub fn ac_ismatch<C: Case, const N: usize>(ac: &AhoCorasick) {
    let hay: [u8; N] = any();
    let (s, e) = any_span(N);
    let an: bool = any();
    assume(!rejected(C::SK, C::MK, false, an, API_FIND));
    let inp = Input::new(&hay[..]).span(s..e).anchored(anch(an));
    let im = ac.is_match(inp.clone());
    let f = ac.find(inp.clone());
    let ex = oracle::exists(C::pats(), &hay[..], s, e, an, C::CI);
    assert!(im == ex, "AhoCorasick::is_match disagrees with the existence of an occurrence");
    assert!(f.is_some() == ex, "AhoCorasick::find disagrees with the existence of an occurrence");
    let want = oracle::find(C::pats(), &hay[..], s, e, C::MK, an, C::CI);
    assert!(same(f, want), "AhoCorasick::find differs from the definition");
    cover!(im, "is_match is true");
    cover!(!im, "is_match is false");
    cover!(s == e, "an empty span");
}

/// `AhoCorasick::find_iter` (first item) and, for standard semantics,
/// `find_overlapping` (first step) vs the definition, through the
/// `Arc<dyn AcAutomaton>` dispatch.
#[cfg(kani)]
pub fn ac_iter<C: Case, const N: usize>(ac: &AhoCorasick) {
    let hay: [u8; N] = any();
    let (s, e) = any_span(N);
    let inp = Input::new(&hay[..]).span(s..e);
    let mut it = ac.find_iter(inp.clone());
    let g1 = it.next();
    let w1 = oracle::iter_next(C::pats(), &hay[..], s, e, None, C::MK, false, C::CI);
    assert!(same(g1, w1), "AhoCorasick::find_iter first item differs from the definition");
    core::mem::forget(it);
    cover!(g1.is_some(), "an item");
}

/// `AhoCorasick::find_overlapping` first step vs the definition.
#[cfg(kani)]
pub fn ac_overlapping<C: Case, const N: usize>(ac: &AhoCorasick) {
    let hay: [u8; N] = any();
    let (s, e) = any_span(N);
    let inp = Input::new(&hay[..]).span(s..e);
    let mut st = OverlappingState::start();
    ac.find_overlapping(inp, &mut st);
    let w = oracle::first_ending_from(C::pats(), &hay[..], s, e, s, false, C::CI);
    assert!(same(st.get_match(), w), "AhoCorasick::find_overlapping first match differs from the definition");
    cover!(w.is_some(), "a match");
}

/// The top-level searcher's metadata getters and every forwarder of
/// `impl Automaton for Arc<dyn AcAutomaton>` (stream search, the iterators and
/// the replace routines of `AhoCorasick` reach the automaton only through
/// them) agree with the automaton they wrap: metadata vs the pattern list as
/// supplied, and - for the start states and their successors under a symbolic
/// byte - every state-level method vs the direct call.
#[cfg(kani)]
pub fn ac_meta<C: Case, A: Automaton>(ac: &AhoCorasick, a: &A) {
    use aho_corasick::verif::ac as hk;
    assert!(ac.patterns_len() == C::NPATS, "AhoCorasick::patterns_len");
    let mk = match C::MK { 0 => aho_corasick::MatchKind::Standard, 1 => aho_corasick::MatchKind::LeftmostFirst, _ => aho_corasick::MatchKind::LeftmostLongest };
    assert!(ac.match_kind() == mk, "AhoCorasick::match_kind");
    assert!(ac.start_kind() == hk::sk_from_u8(C::SK), "AhoCorasick::start_kind");
    let (np, mn, mx, fmk, pf) = hk::fwd_meta(ac);
    assert!(np == C::NPATS && fmk == mk, "forwarded patterns_len / match_kind");
    assert!(pf == a.prefilter().is_some(), "forwarded prefilter");
    if C::NPATS > 0 {
        assert!(ac.min_pattern_len() == C::MINLEN && mn == C::MINLEN, "min_pattern_len through the top-level searcher");
        assert!(ac.max_pattern_len() == C::MAXLEN && mx == C::MAXLEN, "max_pattern_len through the top-level searcher");
        let p: usize = any();
        assume(p < C::NPATS);
        let pid = aho_corasick::PatternID::new_unchecked(p);
        assert!(hk::fwd_pattern_len(ac, pid) == C::pats()[p].len(), "forwarded pattern_len");
    }
    let an: bool = any();
    let r1 = hk::fwd_start_state(ac, anch(an));
    let r2 = a.start_state(anch(an));
    assert!(r1.is_ok() == r2.is_ok(), "forwarded start_state: Ok/Err differs");
    if let (Ok(s1), Ok(s2)) = (&r1, &r2) {
        assert!(*s1 == *s2, "forwarded start_state");
        let b: u8 = any();
        let t1 = hk::fwd_next_state(ac, anch(an), *s1, b);
        let t2 = a.next_state(anch(an), *s2, b);
        assert!(t1 == t2, "forwarded next_state");
        let c: u8 = any();
        let u1 = hk::fwd_next_state(ac, anch(an), t1, c);
        let u2 = a.next_state(anch(an), t2, c);
        assert!(u1 == u2, "forwarded next_state (second step)");
        assert!(hk::fwd_flags(ac, u1) == (a.is_special(u2), a.is_dead(u2), a.is_match(u2), a.is_start(u2)), "forwarded is_special/is_dead/is_match/is_start");
        if a.is_match(u2) {
            assert!(hk::fwd_match_len(ac, u1) == a.match_len(u2), "forwarded match_len");
            let k: usize = any();
            assume(k < a.match_len(u2));
            assert!(hk::fwd_match_pattern(ac, u1, k) == a.match_pattern(u2, k), "forwarded match_pattern");
        }
        cover!(a.is_match(u2), "a match state two steps from the start");
    }
    core::mem::forget(r1);
    core::mem::forget(r2);
}

/// The stream iterator built by the top-level searcher starts like the one of
/// the automaton: roll buffer minimum = longest pattern (it is computed through
/// the `Arc<dyn AcAutomaton>` forwarder).
#[cfg(kani)]
pub fn ac_stream_init<C: Case, const SPARE: usize>(ac: &AhoCorasick) {
    aho_corasick::verif::buffer::set_spare_capacity(Some(SPARE));
    let data: [u8; 1] = any();
    let rdr = SymReader::new(&data[..], 0, usize::MAX);
    let it = ac.try_stream_find_iter(rdr).unwrap();
    let (sid, start, abs, bpos, rpos, end, cap, min) = aho_corasick::verif::ac::stream_parts(&it);
    assert!(sid == start, "stream search does not begin in the start state");
    assert!(abs == 0 && bpos == 0 && rpos == 0 && end == 0, "stream iterator does not begin at offset 0 with an empty buffer");
    assert!(min == C::MAXLEN, "roll buffer minimum is not the longest pattern (top-level searcher)");
    assert!(cap == C::MAXLEN + SPARE && cap > min, "roll buffer capacity does not exceed the longest pattern");
    core::mem::forget(it);
}

// ---------------------------------------------------------------------------
// C02/C03: the standard-semantics DFA against the textbook automaton, per
// state (inductive: covers haystacks of every length for the pattern list)

/// For each row LO..HI of the unanchored relation (concrete loop; the row's
/// breadth-first witness string `w` spells the state) and a symbolic byte:
/// the DFA successor is the state spelled by the longest suffix of `w·b` that
/// is a prefix of a pattern; and the state's match list is exactly the
/// patterns that are suffixes of `w`, longest first, then supply order, each
/// once.
#[cfg(kani)]
pub fn std_struct<C: Case, const LO: usize, const HI: usize>() {
    let d = C::dfa();
    let rel = C::rel_u();
    let wit = C::wit_u();
    let pats = C::pats();
    let mut i = LO;
    while i < HI {
        let w = wit[i];
        let sd = StateID::new_unchecked(rel[i][2] as usize);
        // --- match list of this state
        let want_len = {
            let mut c = 0;
            let mut p = 0;
            while p < pats.len() {
                if pats[p].len() <= w.len() && oracle::occ(pats[p], w, w.len() - pats[p].len(), w.len(), C::CI) {
                    c += 1;
                }
                p += 1;
            }
            c
        };
        assert!(d.is_match(sd) == (want_len > 0), "state is (not) a match state although a pattern is (not) a suffix of its string");
        if want_len > 0 {
            assert!(d.match_len(sd) == want_len, "match list length differs from the number of patterns that are suffixes of the state's string");
            let k: usize = any();
            assume(k < want_len);
            let want = oracle::nth_suffix_pattern(pats, w, k, C::CI);
            assert!(Some(d.match_pattern(sd, k).as_usize()) == want, "match list entry differs from the definition (order / duplicates)");
        }
        // --- successor on a symbolic byte
        let b: u8 = any();
        let t = d.next_state(Anchored::No, sd, b);
        let k = oracle::ac_suffix_len(pats, w, b, C::CI);
        // the row whose witness is that suffix
        let n = w.len() + 1;
        let mut found = false;
        let mut j = 0;
        while j < wit.len() {
            if wit[j].len() == k {
                let mut same = true;
                let mut x = 0;
                while x < k {
                    let idx = n - k + x;
                    let hb = if idx < w.len() { w[idx] } else { b };
                    let eq = if C::CI { oracle::lower(hb) == oracle::lower(wit[j][x]) } else { hb == wit[j][x] };
                    if !eq {
                        same = false;
                    }
                    x += 1;
                }
                if same {
                    found = true;
                    assert!(rel[j][2] == t.as_u32(), "DFA transition differs from the textbook Aho-Corasick automaton");
                }
            }
            j += 1;
        }
        assert!(found, "the textbook successor state is missing from the automaton");
        cover!(k >= 2, "a transition into a depth >= 2 state");
        cover!(k == 0, "a transition back to the root");
        i += 1;
    }
    core::mem::forget(d);
}

/// C13: an iterator that was constructed never fails later: after `Ok(iter)`
/// two `next()` calls cannot panic (OV selects the overlapping iterator;
/// symbolic haystack and anchoring), on the automaton itself.
#[cfg(kani)]
pub fn iter_never_fails<C: Case, A: Automaton, const N: usize, const OV: bool>(aut: &A) {
    let hay: [u8; N] = any();
    let an: bool = any();
    let inp = Input::new(&hay[..]).anchored(anch(an));
    if !OV {
        let r = aut.try_find_iter(inp);
        if let Ok(mut it) = r {
            let _ = it.next();
            let _ = it.next();
            core::mem::forget(it);
            cover!(true, "a constructed non-overlapping iterator is stepped");
        } else {
            core::mem::forget(r);
        }
    } else {
        let r = aut.try_find_overlapping_iter(inp);
        if let Ok(mut it) = r {
            let _ = it.next();
            let _ = it.next();
            core::mem::forget(it);
            cover!(true, "a constructed overlapping iterator is stepped");
        } else {
            core::mem::forget(r);
        }
    }
}

/// C05 unit: the reconstructed prefilter alone. A candidate never lies beyond
/// the start of the leftmost true occurrence in the span, `None` only if
/// nothing occurs, and a *confirmed* match (memmem / packed) is exactly the
/// leftmost match the automaton semantics define.
#[cfg(kani)]
pub fn pf_candidate<C: Case, const N: usize>() {
    use aho_corasick::automaton::Candidate;
    let pre = C::prefilter().unwrap();
    let hay: [u8; N] = any();
    let (s, e) = any_span(N);
    let cand = pre.find_in(&hay[..], Span { start: s, end: e });
    // leftmost occurrence of any pattern in the span (any match kind agrees on its start)
    let lm = oracle::leftmost(C::pats(), &hay[..], s, e, oracle::LEFTMOST_FIRST, false, C::CI);
    match cand {
        Candidate::None => assert!(lm.is_none(), "prefilter reports no candidate although a pattern occurs"),
        Candidate::PossibleStartOfMatch(i) => {
            assert!(i >= s && i <= e, "candidate outside the span");
            if let Some((_, ms, _)) = lm {
                assert!(i <= ms, "prefilter skips past the leftmost occurrence");
            }
        }
        Candidate::Match(m) => {
            let want = oracle::find(C::pats(), &hay[..], s, e, if C::MK == 0 { oracle::LEFTMOST_FIRST } else { C::MK }, false, C::CI);
            assert!(same(Some(m), want), "a match confirmed by the prefilter is not the match the definition gives");
        }
    }
    cover!(lm.is_some(), "an occurrence exists");
    cover!(lm.is_none(), "no occurrence");
    core::mem::forget(pre);
}

/// C07: the real constructor produces the initial state the inductive step
/// starts from: automaton in its unanchored start state, all positions 0, an
/// empty buffer whose `min` is the longest pattern and whose capacity exceeds
/// it (here: by the hook's spare bytes).
#[cfg(kani)]
pub fn stream_init<C: Case, A: Automaton, const SPARE: usize>(aut: &A) {
    aho_corasick::verif::buffer::set_spare_capacity(Some(SPARE));
    let data: [u8; 1] = any();
    let rdr = SymReader::new(&data[..], 0, usize::MAX);
    let it = aut.try_stream_find_iter(rdr).unwrap();
    let (sid, start, abs, bpos, rpos, end, cap, min) = aho_corasick::verif::automaton::stream_parts(&it);
    assert!(sid == start && start == aut.start_state(Anchored::No).unwrap(), "stream search does not begin in the unanchored start state");
    assert!(abs == 0 && bpos == 0 && rpos == 0 && end == 0, "stream iterator does not begin at offset 0 with an empty buffer");
    assert!(min == C::MAXLEN, "roll buffer minimum is not the longest pattern");
    assert!(cap == C::MAXLEN + SPARE && cap > min, "roll buffer capacity does not exceed the longest pattern");
    core::mem::forget(it);
}

/// C18 (writer side, light form): a writer that fails at a symbolic call makes
/// stream replacement return `Err` without a panic and without any further
/// write; without a failure it returns `Ok`. (That what was written before the
/// failure is correct follows from the chunk induction of `stream_step`.)
#[cfg(kani)]
pub fn stream_wfault<C: Case, A: Automaton, const T: usize, const W: usize>(aut: &A) {
    aho_corasick::verif::buffer::set_spare_capacity(Some(1));
    let hay: [u8; T] = any();
    let rdr = SymReader::new(&hay[..], 0, usize::MAX);
    let fail_at: usize = any();
    let mut wtr = SymWriter::<W> { out: [0; W], len: 0, calls: 0, fail_at, failed: false, overflow: false, partial: false };
    let res = aut.try_stream_replace_all_with(rdr, &mut wtr, |m, _bytes, w| {
        std::io::Write::write_all(w, &[b'0' + m.pattern().as_usize() as u8])
    });
    if wtr.failed {
        assert!(res.is_err(), "writer failure not reported");
        assert!(wtr.calls == fail_at + 1, "the writer is used again after it failed");
    } else {
        assert!(res.is_ok(), "stream replacement failed without a fault");
    }
    cover!(wtr.failed && wtr.len > 0, "a writer failure after some output");
    cover!(!wtr.failed, "no failure");
    core::mem::forget(res);
}
