//! Executable specifications, written from the property statements only.
//! Nothing in this file calls into the crate under verification.
//!
//! All functions take the pattern list as supplied by the user, a haystack,
//! and a span `[s, e)`. A match is `(pattern index, start, end)`.
#![allow(dead_code)]

pub type M = (usize, usize, usize);

pub const STANDARD: u8 = 0;
pub const LEFTMOST_FIRST: u8 = 1;
pub const LEFTMOST_LONGEST: u8 = 2;

#[inline(always)]
pub fn lower(b: u8) -> u8 {
    if b >= b'A' && b <= b'Z' {
        b + 32
    } else {
        b
    }
}

/// Pattern `p` occurs in `hay` at offset `at`, ending no later than `e`.
/// With `ci`, ASCII letters are compared case-insensitively and every other
/// byte exactly.
#[inline(always)]
pub fn occ(p: &[u8], hay: &[u8], at: usize, e: usize, ci: bool) -> bool {
    if at > e || p.len() > e - at {
        return false;
    }
    let mut k = 0;
    let mut ok = true;
    while k < p.len() {
        let (x, y) = (hay[at + k], p[k]);
        let same = if ci { lower(x) == lower(y) } else { x == y };
        if !same {
            ok = false;
        }
        k += 1;
    }
    ok
}

/// Leftmost-first / leftmost-longest: smallest start in `[s, e]` (exactly `s`
/// when anchored) at which some pattern occurs within the span; among the
/// patterns occurring there the first supplied (LeftmostFirst) or the longest,
/// ties to the first supplied (LeftmostLongest).
pub fn leftmost(
    pats: &[&[u8]],
    hay: &[u8],
    s: usize,
    e: usize,
    kind: u8,
    anchored: bool,
    ci: bool,
) -> Option<M> {
    if s > e {
        return None;
    }
    let mut start = s;
    while start <= e {
        let mut best: Option<M> = None;
        let mut pid = 0;
        while pid < pats.len() {
            if occ(pats[pid], hay, start, e, ci) {
                let cand = (pid, start, start + pats[pid].len());
                match best {
                    None => best = Some(cand),
                    Some((_, bs, be)) => {
                        if kind == LEFTMOST_LONGEST && cand.2 - cand.1 > be - bs
                        {
                            best = Some(cand);
                        }
                    }
                }
            }
            pid += 1;
        }
        if best.is_some() {
            return best;
        }
        if anchored {
            return None;
        }
        start += 1;
    }
    None
}

/// Standard semantics: smallest end in `[s, e]`; among occurrences ending
/// there the longest; among equal patterns the first supplied. Anchored:
/// only occurrences starting at `s` count.
pub fn standard(
    pats: &[&[u8]],
    hay: &[u8],
    s: usize,
    e: usize,
    anchored: bool,
    ci: bool,
) -> Option<M> {
    if s > e {
        return None;
    }
    let mut end = s;
    while end <= e {
        let mut best: Option<M> = None;
        let mut pid = 0;
        while pid < pats.len() {
            let l = pats[pid].len();
            if l <= end - s {
                let start = end - l;
                if (!anchored || start == s) && occ(pats[pid], hay, start, e, ci)
                {
                    match best {
                        None => best = Some((pid, start, end)),
                        Some((_, bs, _)) => {
                            if start < bs {
                                best = Some((pid, start, end));
                            }
                        }
                    }
                }
            }
            pid += 1;
        }
        if best.is_some() {
            return best;
        }
        end += 1;
    }
    None
}

/// One non-overlapping search under match kind `kind`.
pub fn find(
    pats: &[&[u8]],
    hay: &[u8],
    s: usize,
    e: usize,
    kind: u8,
    anchored: bool,
    ci: bool,
) -> Option<M> {
    if kind == STANDARD {
        standard(pats, hay, s, e, anchored, ci)
    } else {
        leftmost(pats, hay, s, e, kind, anchored, ci)
    }
}

/// The iterator rule: search from `pos`; an empty match at the offset where
/// the previous match ended (`last_end`) is not yielded, the search restarts
/// one byte later instead.
pub fn iter_next(
    pats: &[&[u8]],
    hay: &[u8],
    pos: usize,
    e: usize,
    last_end: Option<usize>,
    kind: u8,
    anchored: bool,
    ci: bool,
) -> Option<M> {
    let m = find(pats, hay, pos, e, kind, anchored, ci);
    match m {
        Some((_, ms, me)) if ms == me && Some(me) == last_end => {
            find(pats, hay, pos + 1, e, kind, anchored, ci)
        }
        _ => m,
    }
}

/// The `k`-th (0-based) occurrence ending exactly at `end` inside `[s, e)`,
/// in the order longest first, then supply order. Anchored: only occurrences
/// starting at `s`.
pub fn nth_ending_at(
    pats: &[&[u8]],
    hay: &[u8],
    s: usize,
    e: usize,
    end: usize,
    k: usize,
    anchored: bool,
    ci: bool,
) -> Option<M> {
    if end < s || end > e {
        return None;
    }
    let mut cnt = 0;
    let mut start = s;
    while start <= end {
        if !anchored || start == s {
            let mut pid = 0;
            while pid < pats.len() {
                if pats[pid].len() == end - start
                    && occ(pats[pid], hay, start, e, ci)
                {
                    if cnt == k {
                        return Some((pid, start, end));
                    }
                    cnt += 1;
                }
                pid += 1;
            }
        }
        start += 1;
    }
    None
}

/// Number of occurrences ending exactly at `end`.
pub fn count_ending_at(
    pats: &[&[u8]],
    hay: &[u8],
    s: usize,
    e: usize,
    end: usize,
    anchored: bool,
    ci: bool,
) -> usize {
    if end < s || end > e {
        return 0;
    }
    let mut cnt = 0;
    let mut start = s;
    while start <= end {
        if !anchored || start == s {
            let mut pid = 0;
            while pid < pats.len() {
                if pats[pid].len() == end - start
                    && occ(pats[pid], hay, start, e, ci)
                {
                    cnt += 1;
                }
                pid += 1;
            }
        }
        start += 1;
    }
    cnt
}

/// The first occurrence (in overlapping order) whose end is `>= from_end`.
pub fn first_ending_from(
    pats: &[&[u8]],
    hay: &[u8],
    s: usize,
    e: usize,
    from_end: usize,
    anchored: bool,
    ci: bool,
) -> Option<M> {
    let mut end = if from_end < s { s } else { from_end };
    while end <= e {
        let m = nth_ending_at(pats, hay, s, e, end, 0, anchored, ci);
        if m.is_some() {
            return m;
        }
        end += 1;
    }
    None
}

/// Does any pattern occur inside the span (starting at `s` when anchored)?
pub fn exists(
    pats: &[&[u8]],
    hay: &[u8],
    s: usize,
    e: usize,
    anchored: bool,
    ci: bool,
) -> bool {
    if s > e {
        return false;
    }
    let mut start = s;
    let mut found = false;
    while start <= e {
        if !anchored || start == s {
            let mut pid = 0;
            while pid < pats.len() {
                if occ(pats[pid], hay, start, e, ci) {
                    found = true;
                }
                pid += 1;
            }
        }
        start += 1;
    }
    found
}

/// Is `(pid, ms, me)` a genuine occurrence inside `[s, e)`?
pub fn is_occurrence(
    pats: &[&[u8]],
    hay: &[u8],
    s: usize,
    e: usize,
    m: M,
    anchored: bool,
    ci: bool,
) -> bool {
    let (pid, ms, me) = m;
    pid < pats.len()
        && ms >= s
        && me <= e
        && ms <= me
        && me - ms == pats[pid].len()
        && (!anchored || ms == s)
        && occ(pats[pid], hay, ms, e, ci)
}

/// Textbook Aho-Corasick (standard semantics, unanchored): after reading the
/// string `w` followed by byte `b`, the automaton is in the state spelled by
/// the longest suffix of `w·b` that is a prefix of some pattern. Returns the
/// length of that suffix.
pub fn ac_suffix_len(pats: &[&[u8]], w: &[u8], b: u8, ci: bool) -> usize {
    let n = w.len() + 1;
    let at = |i: usize| -> u8 {
        if i < w.len() {
            w[i]
        } else {
            b
        }
    };
    let mut k = n;
    while k > 0 {
        // is (w·b)[n-k..] a prefix of some pattern?
        let mut pid = 0;
        while pid < pats.len() {
            if pats[pid].len() >= k {
                let mut ok = true;
                let mut i = 0;
                while i < k {
                    let (x, y) = (at(n - k + i), pats[pid][i]);
                    let same = if ci { lower(x) == lower(y) } else { x == y };
                    if !same {
                        ok = false;
                    }
                    i += 1;
                }
                if ok {
                    return k;
                }
            }
            pid += 1;
        }
        k -= 1;
    }
    0
}

/// The `k`-th (0-based) pattern that is a suffix of `w`, longest first and
/// then in supply order: the match list of the state spelled by `w`.
pub fn nth_suffix_pattern(pats: &[&[u8]], w: &[u8], k: usize, ci: bool) -> Option<usize> {
    let mut cnt = 0;
    let mut len = w.len() + 1;
    while len > 0 {
        let l = len - 1;
        let mut pid = 0;
        while pid < pats.len() {
            if pats[pid].len() == l && occ(pats[pid], w, w.len() - l, w.len(), ci) {
                if cnt == k {
                    return Some(pid);
                }
                cnt += 1;
            }
            pid += 1;
        }
        len -= 1;
    }
    None
}
