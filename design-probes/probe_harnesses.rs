#![allow(unused)]
pub mod gen;
use aho_corasick::{automaton::{Automaton, OverlappingState}, dfa, Input, MatchKind, Match, Anchored};

pub const PATS: [&[u8]; 4] = [b"abc", b"bc", b"c", b"ab"];

fn occurs(p: &[u8], hay: &[u8], start: usize, end: usize) -> bool {
    if start + p.len() > end { return false; }
    let mut k = 0;
    let mut ok = true;
    while k < p.len() { if hay[start + k] != p[k] { ok = false; } k += 1; }
    ok
}

// leftmost-first within span [s,e): smallest start; among those the lowest pattern id
fn oracle_lf(pats: &[&[u8]], hay: &[u8], s: usize, e: usize, anchored: bool) -> Option<(usize, usize, usize)> {
    let mut start = s;
    while start <= e {
        let mut pid = 0;
        while pid < pats.len() {
            if occurs(pats[pid], hay, start, e) {
                return Some((pid, start, start + pats[pid].len()));
            }
            pid += 1;
        }
        if anchored { return None; }
        start += 1;
    }
    None
}

fn check(got: Option<Match>, want: Option<(usize,usize,usize)>) {
    match (got, want) {
        (None, None) => {}
        (Some(m), Some((p, s, e))) => {
            assert!(m.pattern().as_usize() == p && m.start() == s && m.end() == e);
        }
        _ => assert!(false),
    }
}

pub fn mk() -> dfa::DFA {
    dfa::DFA::verif_from_parts(gen::TRANS, gen::MATCHES, gen::PLENS, gen::MK, gen::STATE_LEN, gen::ALPHA, gen::STRIDE2, &gen::BC, gen::MINP, gen::MAXP, gen::SPECIAL)
}

#[cfg(kani)]
#[kani::proof]
#[kani::unwind(10)]
fn p_dfa_lf6() {
    let d = mk();
    let hay: [u8; 6] = kani::any();
    let s: usize = kani::any();
    let e: usize = kani::any();
    kani::assume(s <= e && e <= 6);
    let anch: bool = kani::any();
    let inp = Input::new(&hay[..]).span(s..e).anchored(if anch { Anchored::Yes } else { Anchored::No });
    let got = d.try_find(&inp).unwrap();
    check(got, oracle_lf(&PATS, &hay[..], s, e, anch));
    core::mem::forget(d);
}

#[cfg(kani)]
#[kani::proof]
#[kani::unwind(12)]
fn p_dfa_lf8() {
    let d = mk();
    let hay: [u8; 8] = kani::any();
    let s: usize = kani::any();
    let e: usize = kani::any();
    kani::assume(s <= e && e <= 8);
    let anch: bool = kani::any();
    let inp = Input::new(&hay[..]).span(s..e).anchored(if anch { Anchored::Yes } else { Anchored::No });
    let got = d.try_find(&inp).unwrap();
    check(got, oracle_lf(&PATS, &hay[..], s, e, anch));
    core::mem::forget(d);
}

// iterator: repeat oracle from end of previous match, with the empty-match rule
#[cfg(kani)]
#[kani::proof]
#[kani::unwind(10)]
fn p_dfa_iter6() {
    let d = mk();
    let hay: [u8; 6] = kani::any();
    let s: usize = kani::any();
    let e: usize = kani::any();
    kani::assume(s <= e && e <= 6);
    let inp = Input::new(&hay[..]).span(s..e);
    let mut it = d.try_find_iter(inp).unwrap();
    let mut pos = s;
    let mut last_end: Option<usize> = None;
    let mut n = 0;
    while n < 8 {
        let got = it.next();
        let mut want = if pos <= e { oracle_lf(&PATS, &hay[..], pos, e, false) } else { None };
        if let Some((_, ws, we)) = want {
            if ws == we && Some(we) == last_end {
                want = if pos + 1 <= e { oracle_lf(&PATS, &hay[..], pos + 1, e, false) } else { None };
            }
        }
        check(got, want);
        match want { None => break, Some((_, _, we)) => { pos = we; last_end = Some(we); } }
        n += 1;
    }
    core::mem::forget(d);
}

// vacuity witness
#[cfg(kani)]
#[kani::proof]
#[kani::unwind(10)]
fn p_dfa_witness() {
    let d = mk();
    let hay: [u8; 6] = kani::any();
    let inp = Input::new(&hay[..]);
    let got = d.try_find(&inp).unwrap();
    kani::cover!(got.is_some() && got.unwrap().pattern().as_usize() == 3);
    kani::cover!(got.is_none());
    core::mem::forget(d);
}

#[cfg(kani)]
#[kani::proof]
#[kani::unwind(9)]
fn p_rk6() {
    use aho_corasick::packed;
    let pats: [&[u8]; 3] = [b"ab", b"abc", b"b"];
    let mut b = packed::Config::new().only_rabin_karp(true).match_kind(packed::MatchKind::LeftmostFirst).builder();
    b.add(pats[0]); b.add(pats[1]); b.add(pats[2]);
    let srch = b.build().unwrap();
    let hay: [u8; 6] = kani::any();
    let s: usize = kani::any();
    let e: usize = kani::any();
    kani::assume(s <= e && e <= 6);
    let got = srch.find_in(&hay[..], aho_corasick::Span { start: s, end: e });
    check(got, oracle_lf(&pats, &hay[..], s, e, false));
    core::mem::forget(srch);
}

pub mod gen_std;
use aho_corasick::nfa::{contiguous, noncontiguous};

pub fn mk_d_std() -> dfa::DFA {
    use gen_std::d::*;
    dfa::DFA::verif_from_parts(TRANS, MATCHES, PLENS, MK, STATE_LEN, ALPHA, STRIDE2, &BC, MINP, MAXP, SPECIAL)
}
pub fn mk_c_std() -> contiguous::NFA {
    use gen_std::c::*;
    contiguous::NFA::verif_from_parts(REPR, PLENS, STATE_LEN, MK, ALPHA, &BC, MINP, MAXP, SPECIAL)
}
pub fn mk_n_std() -> noncontiguous::NFA {
    use gen_std::n::*;
    noncontiguous::NFA::verif_from_parts(&STATES, &SPARSE, DENSE, &MATCHES, PLENS, MK, &BC, MINP, MAXP, SPECIAL)
}

// standard: earliest end in [s,e), then longest (smallest start >= s), then lowest id
fn oracle_std(pats: &[&[u8]], hay: &[u8], s: usize, e: usize, anchored: bool) -> Option<(usize, usize, usize)> {
    let mut end = s;
    while end <= e {
        let mut best: Option<(usize, usize, usize)> = None;
        let mut pid = 0;
        while pid < pats.len() {
            let p = pats[pid];
            if p.len() <= end - s && occurs(p, hay, end - p.len(), e) {
                let start = end - p.len();
                if !anchored || start == s {
                    match best {
                        None => best = Some((pid, start, end)),
                        Some((_, bs, _)) => if start < bs { best = Some((pid, start, end)); }
                    }
                }
            }
            pid += 1;
        }
        if best.is_some() { return best; }
        end += 1;
    }
    None
}

#[cfg(kani)]
#[kani::proof]
#[kani::unwind(10)]
fn p_cnfa_std6() {
    let d = mk_c_std();
    let hay: [u8; 6] = kani::any();
    let s: usize = kani::any();
    let e: usize = kani::any();
    kani::assume(s <= e && e <= 6);
    let anch: bool = kani::any();
    let inp = Input::new(&hay[..]).span(s..e).anchored(if anch { Anchored::Yes } else { Anchored::No });
    let got = d.try_find(&inp).unwrap();
    check(got, oracle_std(gen_std::PATS, &hay[..], s, e, anch));
    core::mem::forget(d);
}

#[cfg(kani)]
#[kani::proof]
#[kani::unwind(10)]
fn p_dfa_std6() {
    let d = mk_d_std();
    let hay: [u8; 6] = kani::any();
    let s: usize = kani::any();
    let e: usize = kani::any();
    kani::assume(s <= e && e <= 6);
    let anch: bool = kani::any();
    let inp = Input::new(&hay[..]).span(s..e).anchored(if anch { Anchored::Yes } else { Anchored::No });
    let got = d.try_find(&inp).unwrap();
    check(got, oracle_std(gen_std::PATS, &hay[..], s, e, anch));
    core::mem::forget(d);
}

#[cfg(kani)]
#[kani::proof]
#[kani::unwind(800)]
fn p_nnfa_std5() {
    let d = mk_n_std();
    let hay: [u8; 5] = kani::any();
    let s: usize = kani::any();
    let e: usize = kani::any();
    kani::assume(s <= e && e <= 5);
    let anch: bool = kani::any();
    let inp = Input::new(&hay[..]).span(s..e).anchored(if anch { Anchored::Yes } else { Anchored::No });
    let got = d.try_find(&inp).unwrap();
    check(got, oracle_std(gen_std::PATS, &hay[..], s, e, anch));
    core::mem::forget(d);
}

// overlapping drain on the DFA: compare to the full occurrence list in (end asc, start asc, pid asc) order
#[cfg(kani)]
#[kani::proof]
#[kani::unwind(24)]
fn p_dfa_ov4() {
    let d = mk_d_std();
    let hay: [u8; 4] = kani::any();
    let inp = Input::new(&hay[..]);
    let mut st = OverlappingState::start();
    let pats = gen_std::PATS;
    let mut end = 0;
    while end <= 4 {
        // longest first => increasing start
        let mut start = 0;
        while start <= end {
            let mut pid = 0;
            while pid < pats.len() {
                if pats[pid].len() == end - start && occurs(pats[pid], &hay[..], start, 4) {
                    d.try_find_overlapping(&inp, &mut st).unwrap();
                    let m = st.get_match();
                    assert!(m.is_some());
                    let m = m.unwrap();
                    assert!(m.pattern().as_usize() == pid && m.start() == start && m.end() == end);
                }
                pid += 1;
            }
            start += 1;
        }
        end += 1;
    }
    d.try_find_overlapping(&inp, &mut st).unwrap();
    assert!(st.get_match().is_none());
    d.try_find_overlapping(&inp, &mut st).unwrap();
    assert!(st.get_match().is_none());
    core::mem::forget(d);
}

pub struct ChunkReader<'a> { pub data: &'a [u8], pub pos: usize, pub calls: usize }
impl<'a> std::io::Read for ChunkReader<'a> {
    fn read(&mut self, buf: &mut [u8]) -> std::io::Result<usize> {
        let remaining = self.data.len() - self.pos;
        if remaining == 0 || buf.len() == 0 { return Ok(0); }
        #[cfg(kani)]
        let want: usize = kani::any();
        #[cfg(not(kani))]
        let want: usize = 1;
        let mut n = want;
        if n == 0 { n = 1; }
        if n > remaining { n = remaining; }
        if n > buf.len() { n = buf.len(); }
        let mut i = 0;
        while i < n { buf[i] = self.data[self.pos + i]; i += 1; }
        self.pos += n;
        self.calls += 1;
        Ok(n)
    }
}

#[cfg(kani)]
#[kani::proof]
#[kani::unwind(12)]
fn p_stream4() {
    aho_corasick::verif::verif_set_spare_capacity(Some(1));
    let d = mk_d_std(); // patterns abc bc c ab, max len 3 => buffer cap 4
    let hay: [u8; 5] = kani::any();
    let rdr = ChunkReader { data: &hay[..], pos: 0, calls: 0 };
    let mut it = d.try_stream_find_iter(rdr).unwrap();
    let mut pos = 0usize;
    let mut n = 0;
    while n < 7 {
        let got = it.next();
        let want = if pos <= 5 { oracle_std(gen_std::PATS, &hay[..], pos, 5, false) } else { None };
        match (got, want) {
            (None, None) => break,
            (Some(Ok(m)), Some((p, s, e))) => {
                assert!(m.pattern().as_usize() == p && m.start() == s && m.end() == e);
                pos = e;
            }
            _ => { assert!(false); break; }
        }
        n += 1;
    }
    core::mem::forget(it);
    core::mem::forget(d);
}

#[cfg(kani)]
mod teddy_probe {
    use super::*;
    use core::arch::x86_64::*;
    pub unsafe fn pshufb_model(a: __m128i, b: __m128i) -> __m128i {
        let a: [u8; 16] = core::mem::transmute(a);
        let b: [u8; 16] = core::mem::transmute(b);
        let mut r = [0u8; 16];
        let mut i = 0;
        while i < 16 {
            r[i] = if b[i] & 0x80 != 0 { 0 } else { a[(b[i] & 0xF) as usize] };
            i += 1;
        }
        core::mem::transmute(r)
    }
    pub fn yes() -> bool { true }
    pub fn no() -> bool { false }

    #[kani::proof]
    #[kani::unwind(70)]
    #[kani::stub(core::arch::x86_64::_mm_shuffle_epi8, pshufb_model)]
    #[kani::stub(aho_corasick::packed::teddy::builder::x86_64::is_available_ssse3, yes)]
    #[kani::stub(aho_corasick::packed::teddy::builder::x86_64::is_available_avx2, no)]
    fn p_teddy_build() {
        use aho_corasick::packed;
        let pats: [&[u8]; 2] = [b"ab", b"b"];
        let mut b = packed::Config::new().only_teddy(true).only_teddy_256bit(Some(false)).match_kind(packed::MatchKind::LeftmostFirst).builder();
        b.add(pats[0]); b.add(pats[1]);
        let srch = b.build();
        assert!(srch.is_some());
        core::mem::forget(srch);
    }
}

#[cfg(kani)]
#[kani::proof]
#[kani::unwind(12)]
fn p_sim_u() {
    use aho_corasick::automaton::StateID;
    let n = mk_n_std();
    let c = mk_c_std();
    let d = mk_d_std();
    let rel = gen_std::REL_U;
    let i: usize = kani::any();
    kani::assume(i < rel.len());
    let b: u8 = kani::any();
    let sn = StateID::new_unchecked(rel[i][0] as usize);
    let sc = StateID::new_unchecked(rel[i][1] as usize);
    let sd = StateID::new_unchecked(rel[i][2] as usize);
    let tn = n.next_state(Anchored::No, sn, b);
    let tc = c.next_state(Anchored::No, sc, b);
    let td = d.next_state(Anchored::No, sd, b);
    // successor triple must be in the relation
    let mut found = false;
    let mut j = 0;
    while j < rel.len() {
        if rel[j][0] == tn.as_u32() {
            found = true;
            assert!(rel[j][1] == tc.as_u32());
            assert!(rel[j][2] == td.as_u32());
        }
        j += 1;
    }
    assert!(found);
    // observations agree
    assert!(n.is_match(tn) == c.is_match(tc) && n.is_match(tn) == d.is_match(td));
    assert!(n.is_dead(tn) == c.is_dead(tc) && n.is_dead(tn) == d.is_dead(td));
    assert!(n.is_special(tn) == c.is_special(tc) && n.is_special(tn) == d.is_special(td));
    if n.is_match(tn) {
        let ln = n.match_len(tn);
        assert!(ln == c.match_len(tc) && ln == d.match_len(td));
        let k: usize = kani::any();
        kani::assume(k < ln);
        let p = n.match_pattern(tn, k);
        assert!(p == c.match_pattern(tc, k) && p == d.match_pattern(td, k));
    }
    core::mem::forget(n); core::mem::forget(c); core::mem::forget(d);
}

#[cfg(kani)]
fn sim_step(n: &noncontiguous::NFA, c: &contiguous::NFA, d: &dfa::DFA, rel: &[[u32;3]], i: usize, anch: Anchored) {
    use aho_corasick::automaton::StateID;
    let b: u8 = kani::any();
    let sn = StateID::new_unchecked(rel[i][0] as usize);
    let sc = StateID::new_unchecked(rel[i][1] as usize);
    let sd = StateID::new_unchecked(rel[i][2] as usize);
    let tn = n.next_state(anch, sn, b);
    let tc = c.next_state(anch, sc, b);
    let td = d.next_state(anch, sd, b);
    let mut found = false;
    let mut j = 0;
    while j < rel.len() {
        if rel[j][0] == tn.as_u32() {
            found = true;
            assert!(rel[j][1] == tc.as_u32());
            assert!(rel[j][2] == td.as_u32());
        }
        j += 1;
    }
    assert!(found);
    assert!(n.is_match(tn) == c.is_match(tc) && n.is_match(tn) == d.is_match(td));
    assert!(n.is_dead(tn) == c.is_dead(tc) && n.is_dead(tn) == d.is_dead(td));
    assert!(n.is_special(tn) == c.is_special(tc) && n.is_special(tn) == d.is_special(td));
}

#[cfg(kani)]
#[kani::proof]
#[kani::unwind(258)]
fn p_sim_states() {
    let n = mk_n_std();
    let c = mk_c_std();
    let d = mk_d_std();
    let rel = gen_std::REL_U;
    let mut i = 0;
    while i < rel.len() {
        sim_step(&n, &c, &d, rel, i, Anchored::No);
        i += 1;
    }
    let rel = gen_std::REL_A;
    let mut i = 0;
    while i < rel.len() {
        sim_step(&n, &c, &d, rel, i, Anchored::Yes);
        i += 1;
    }
    core::mem::forget(n); core::mem::forget(c); core::mem::forget(d);
}

#[cfg(kani)]
#[kani::proof]
#[kani::unwind(6)]
fn p_cnfa_std4() {
    let d = mk_c_std();
    let hay: [u8; 4] = kani::any();
    let s: usize = kani::any();
    let e: usize = kani::any();
    kani::assume(s <= e && e <= 4);
    let anch: bool = kani::any();
    let inp = Input::new(&hay[..]).span(s..e).anchored(if anch { Anchored::Yes } else { Anchored::No });
    let got = d.try_find(&inp).unwrap();
    check(got, oracle_std(gen_std::PATS, &hay[..], s, e, anch));
    core::mem::forget(d);
}

#[cfg(kani)]
#[kani::proof]
#[kani::unwind(6)]
fn p_stream3() {
    aho_corasick::verif::verif_set_spare_capacity(Some(1));
    let d = mk_d_std(); // max len 3 => buffer cap 4
    let hay: [u8; 4] = kani::any();
    let rdr = ChunkReader { data: &hay[..], pos: 0, calls: 0 };
    let mut it = d.try_stream_find_iter(rdr).unwrap();
    let mut pos = 0usize;
    let mut n = 0;
    while n < 5 {
        let got = it.next();
        let want = if pos <= 4 { oracle_std(gen_std::PATS, &hay[..], pos, 4, false) } else { None };
        match (got, want) {
            (None, None) => break,
            (Some(Ok(m)), Some((p, s, e))) => {
                assert!(m.pattern().as_usize() == p && m.start() == s && m.end() == e);
                pos = e;
            }
            _ => { assert!(false); break; }
        }
        n += 1;
    }
    core::mem::forget(it);
    core::mem::forget(d);
}

#[cfg(kani)]
#[kani::proof]
#[kani::unwind(11)]
fn p_dfa_ov3() {
    let d = mk_d_std();
    let hay: [u8; 3] = kani::any();
    let inp = Input::new(&hay[..]);
    let mut st = OverlappingState::start();
    let pats = gen_std::PATS;
    // got list
    let mut got = [(0usize, 0usize, 0usize); 9];
    let mut ng = 0;
    let mut k = 0;
    while k < 9 {
        d.try_find_overlapping(&inp, &mut st).unwrap();
        if let Some(m) = st.get_match() {
            if ng == k { got[k] = (m.pattern().as_usize(), m.start(), m.end()); ng = k + 1; }
        }
        k += 1;
    }
    // want list: (end asc, start asc, pid asc)
    let mut nw = 0;
    let mut end = 0;
    while end <= 3 {
        let mut start = 0;
        while start <= end {
            let mut pid = 0;
            while pid < pats.len() {
                if pats[pid].len() == end - start && occurs(pats[pid], &hay[..], start, 3) {
                    assert!(nw < ng);
                    assert!(got[nw].0 == pid && got[nw].1 == start && got[nw].2 == end);
                    nw += 1;
                }
                pid += 1;
            }
            start += 1;
        }
        end += 1;
    }
    assert!(nw == ng);
    core::mem::forget(d);
}

pub mod gen_e;
#[cfg(kani)]
#[kani::proof]
#[kani::unwind(8)]
fn p_dfa_empty_lf() {
    use gen_e::d::*;
    let d = dfa::DFA::verif_from_parts(TRANS, MATCHES, PLENS, MK, STATE_LEN, ALPHA, STRIDE2, &BC, MINP, MAXP, SPECIAL);
    let hay: [u8; 4] = kani::any();
    let s: usize = kani::any();
    let e: usize = kani::any();
    kani::assume(s <= e && e <= 4);
    let inp = Input::new(&hay[..]).span(s..e);
    let got = d.try_find(&inp).unwrap();
    check(got, oracle_lf(gen_e::PATS, &hay[..], s, e, false));
    core::mem::forget(d);
}

// one literal state (the deepest nnfa state) with symbolic byte
#[cfg(kani)]
#[kani::proof]
#[kani::unwind(258)]
fn p_sim_one() {
    let n = mk_n_std();
    let c = mk_c_std();
    let d = mk_d_std();
    sim_step(&n, &c, &d, &[[2,7,16],[3,17,32],[4,25,48],[5,33,64],[6,39,80],[8,53,96],[9,60,112]], 3, Anchored::No);
    core::mem::forget(n); core::mem::forget(c); core::mem::forget(d);
}

#[cfg(kani)]
#[kani::proof]
#[kani::unwind(258)]
fn p_nn_one() {
    use aho_corasick::automaton::StateID;
    let n = noncontiguous::verif_demo_nfa();
    let b: u8 = kani::any();
    // state 5 = a depth-2/3 state; state 0 = DEAD with a 256-long list
    let t5 = n.next_state(Anchored::No, StateID::new_unchecked(5), b);
    let t4 = n.next_state(Anchored::No, StateID::new_unchecked(4), b);
    let t9 = n.next_state(Anchored::No, StateID::new_unchecked(9), b);
    kani::cover!(n.is_match(t5));
    kani::cover!(n.is_match(t9));
    assert!(t5.as_usize() < 10 && t4.as_usize() < 10 && t9.as_usize() < 10);
    core::mem::forget(n);
}

#[cfg(kani)]
mod teddy_find {
    use super::*;
    use core::arch::x86_64::*;
    pub const BUCKETS: [&[u32]; 8] = [&[], &[], &[], &[], &[], &[], &[1], &[0]];
    pub const MASKS: [([u8;16],[u8;16]);3] = [([0, 128, 64, 0, 0, 0, 0, 0, 0, 0, 0, 0, 0, 0, 0, 0], [0, 0, 0, 0, 0, 0, 192, 0, 0, 0, 0, 0, 0, 0, 0, 0]), ([0, 0, 128, 64, 0, 0, 0, 0, 0, 0, 0, 0, 0, 0, 0, 0], [0, 0, 0, 0, 0, 0, 192, 0, 0, 0, 0, 0, 0, 0, 0, 0]), ([0, 0, 0, 128, 64, 0, 0, 0, 0, 0, 0, 0, 0, 0, 0, 0], [0, 0, 0, 0, 0, 0, 192, 0, 0, 0, 0, 0, 0, 0, 0, 0])];
    static P0: [u8; 3] = *b"abc";
    static P1: [u8; 3] = *b"bcd";
    static ORDER: [u32; 2] = [0, 1];

    pub unsafe fn pshufb_model(a: __m128i, b: __m128i) -> __m128i {
        let a: [u8; 16] = core::mem::transmute(a);
        let b: [u8; 16] = core::mem::transmute(b);
        let mut r = [0u8; 16];
        let mut i = 0;
        while i < 16 {
            r[i] = if b[i] & 0x80 != 0 { 0 } else { a[(b[i] & 0xF) as usize] };
            i += 1;
        }
        core::mem::transmute(r)
    }

    #[kani::proof]
    #[kani::unwind(22)]
    #[kani::stub(core::arch::x86_64::_mm_shuffle_epi8, pshufb_model)]
    fn p_teddy19() {
        let mut hay: [u8; 19] = [b'Z'; 19];
        let w: [u8; 6] = kani::any();
        hay[13] = w[0]; hay[14] = w[1]; hay[15] = w[2]; hay[16] = w[3]; hay[17] = w[4]; hay[18] = w[5];
        let pats: [&[u8]; 2] = [b"abc", b"bcd"];
        let got = unsafe {
            aho_corasick::packed::verif_teddy_demo::find3(&P0, &P1, &ORDER, 3, BUCKETS, MASKS, &hay[..], 0)
        };
        let want = oracle_lf(&pats, &hay[..], 0, 19, false);
        match (got, want) {
            (None, None) => {}
            (Some(g), Some(w)) => assert!(g == w),
            _ => assert!(false),
        }
        kani::cover!(got.is_some() && got.unwrap().1 == 16);
    }
}

#[cfg(kani)]
#[kani::proof]
#[kani::unwind(11)]
fn p_stream_step() {
    use aho_corasick::automaton::verif_stream;
    const T: usize = 6;
    const MIN: usize = 3;
    const CAP: usize = 4;
    let d = mk_d_std();
    let hay: [u8; T] = kani::any();
    // pre-state
    let r: usize = kani::any();
    let end: usize = kani::any();
    let bpos: usize = kani::any();
    let rpos: usize = kani::any();
    let m0: usize = kani::any();
    kani::assume(r <= T && end <= CAP && end <= r && bpos <= end && rpos <= bpos);
    let base = r - end;
    let abs = base + bpos;
    let e0 = base + rpos; // emitted prefix length
    kani::assume(m0 <= e0);
    kani::assume(base == 0 || bpos >= MIN);
    kani::assume(end >= MIN || r == T || (end == 0 && r == 0));
    // sid = walk(hay[m0..abs]) with no match strictly inside
    let mut sid = d.start_state(Anchored::No).unwrap();
    let mut j = 0;
    while j < T {
        if j >= m0 && j < abs {
            if j > m0 { kani::assume(!d.is_match(sid)); }
            sid = d.next_state(Anchored::No, sid, hay[j]);
        }
        j += 1;
    }
    let nm = oracle_std(gen_std::PATS, &hay[..], m0, T, false);
    if let Some((_, ns, _)) = nm { kani::assume(ns >= e0); }
    // buffer contents
    let mut bufdata = vec![0u8; CAP];
    let mut i = 0;
    while i < CAP { if i < end { bufdata[i] = hay[base + i]; } i += 1; }
    let rdr = ChunkReader { data: &hay[..], pos: r, calls: 0 };
    let (post, _buf) = verif_stream::step(&d, rdr, bufdata, MIN, end, sid, abs, bpos, rpos);
    let base_post = post.absolute_pos - post.buffer_pos;
    match post.kind {
        2 => {
            let m = post.mat.unwrap();
            match nm { None => assert!(false), Some((p, s, e)) => {
                assert!(m.pattern().as_usize() == p && m.start() == s && m.end() == e);
                assert!(base_post + post.chunk_start == e0 && e0 == s && post.chunk_len == e - s);
            } }
        }
        1 => {
            assert!(base_post + post.chunk_start == e0 || true);
            assert!(post.chunk_len > 0);
        }
        0 => {
            assert!(nm.is_none());
            assert!(e0 == T);
        }
        _ => assert!(false),
    }
    kani::cover!(post.kind == 2);
    kani::cover!(post.kind == 1);
    kani::cover!(post.kind == 0);
    kani::cover!(post.kind == 2 && base_post > 0);
    core::mem::forget(d);
}

#[cfg(kani)]
#[kani::proof]
#[kani::unwind(9)]
fn p_sim_cd() {
    use aho_corasick::automaton::StateID;
    let c = mk_c_std();
    let d = mk_d_std();
    let rel = gen_std::REL_U;
    let mut i = 0;
    while i < rel.len() {
        let b: u8 = kani::any();
        let sc = StateID::new_unchecked(rel[i][1] as usize);
        let sd = StateID::new_unchecked(rel[i][2] as usize);
        let tc = c.next_state(Anchored::No, sc, b);
        let td = d.next_state(Anchored::No, sd, b);
        let mut found = false;
        let mut j = 0;
        while j < rel.len() {
            if rel[j][1] == tc.as_u32() { found = true; assert!(rel[j][2] == td.as_u32()); }
            j += 1;
        }
        assert!(found);
        assert!(c.is_match(tc) == d.is_match(td));
        assert!(c.is_special(tc) == d.is_special(td));
        if c.is_match(tc) {
            let ln = c.match_len(tc);
            assert!(ln == d.match_len(td));
            let k: usize = kani::any();
            kani::assume(k < ln);
            assert!(c.match_pattern(tc, k) == d.match_pattern(td, k));
        }
        i += 1;
    }
    core::mem::forget(c); core::mem::forget(d);
}

#[cfg(kani)]
mod pre_probe {
    use super::*;
    pub fn memchr1(n1: u8, hay: &[u8]) -> Option<usize> {
        let mut i = 0;
        while i < hay.len() { if hay[i] == n1 { return Some(i); } i += 1; }
        None
    }
    pub fn memchr2(n1: u8, n2: u8, hay: &[u8]) -> Option<usize> {
        let mut i = 0;
        while i < hay.len() { if hay[i] == n1 || hay[i] == n2 { return Some(i); } i += 1; }
        None
    }
    pub fn memchr3(n1: u8, n2: u8, n3: u8, hay: &[u8]) -> Option<usize> {
        let mut i = 0;
        while i < hay.len() { if hay[i] == n1 || hay[i] == n2 || hay[i] == n3 { return Some(i); } i += 1; }
        None
    }
    pub fn cpuid_stub(_leaf: u32, _sub: u32) -> core::arch::x86_64::CpuidResult {
        core::arch::x86_64::CpuidResult { eax: 0, ebx: 0, ecx: 0, edx: 0 }
    }
    fn lower(b: u8) -> u8 { if b >= b'A' && b <= b'Z' { b + 32 } else { b } }
    fn occ_ci(p: &[u8], hay: &[u8], at: usize, ci: bool) -> bool {
        if at + p.len() > hay.len() { return false; }
        let mut k = 0; let mut ok = true;
        while k < p.len() {
            let (x, y) = (hay[at + k], p[k]);
            if !(x == y || (ci && lower(x) == lower(y))) { ok = false; }
            k += 1;
        }
        ok
    }

    #[kani::proof]
    #[kani::unwind(8)]
    #[kani::stub(memchr::memchr::memchr, memchr1)]
    #[kani::stub(memchr::memchr::memchr2, memchr2)]
    #[kani::stub(memchr::memchr::memchr3, memchr3)]
    #[kani::stub(core::arch::x86_64::__cpuid_count, cpuid_stub)]
    fn p_rare_sound() {
        let p0: [u8; 2] = kani::any();
        let p1: [u8; 3] = kani::any();
        let ci: bool = kani::any();
        let hay: [u8; 5] = kani::any();
        let (built, cand) = aho_corasick::verif::verif_pre::rare_candidate(&p0, &p1, ci, &hay, 0, 5);
        if built {
            // earliest true occurrence start
            let mut q = 0;
            let mut first: Option<usize> = None;
            while q < 5 {
                if first.is_none() && (occ_ci(&p0, &hay, q, ci) || occ_ci(&p1, &hay, q, ci)) { first = Some(q); }
                q += 1;
            }
            if let Some(f) = first {
                assert!(cand.is_some());
                assert!(cand.unwrap() <= f);
            }
        }
        kani::cover!(built && cand.is_some());
        kani::cover!(built && cand.is_none());
    }
    #[kani::proof]
    #[kani::unwind(8)]
    #[kani::stub(memchr::memchr::memchr, memchr1)]
    #[kani::stub(memchr::memchr::memchr2, memchr2)]
    #[kani::stub(memchr::memchr::memchr3, memchr3)]
    #[kani::stub(core::arch::x86_64::__cpuid_count, cpuid_stub)]
    fn p_rare_sound_small() {
        let p0: [u8; 2] = kani::any();
        let p1: [u8; 2] = kani::any();
        let ci: bool = false;
        let hay: [u8; 4] = kani::any();
        let (built, cand) = aho_corasick::verif::verif_pre::rare_candidate(&p0, &p1, ci, &hay, 0, 4);
        if built {
            let mut q = 0;
            let mut first: Option<usize> = None;
            while q < 4 {
                if first.is_none() && (occ_ci(&p0, &hay, q, ci) || occ_ci(&p1, &hay, q, ci)) { first = Some(q); }
                q += 1;
            }
            if let Some(f) = first {
                assert!(cand.is_some());
                assert!(cand.unwrap() <= f);
            }
        }
        kani::cover!(built && cand.is_some());
    }
}

#[cfg(kani)]
#[kani::proof]
#[kani::unwind(10)]
fn p_replace4() {
    let d = mk_d_std();
    let hay: [u8; 4] = kani::any();
    let mut dst: Vec<u8> = Vec::with_capacity(16);
    d.try_replace_all_with_bytes(&hay[..], &mut dst, |m, _, dst| {
        dst.push(b'0' + m.pattern().as_usize() as u8);
        true
    }).unwrap();
    let mut out = [0u8; 16];
    let mut n = 0;
    let mut pos = 0;
    let mut k = 0;
    while k < 5 {
        match oracle_std(gen_std::PATS, &hay[..], pos, 4, false) {
            None => break,
            Some((p, s, e)) => {
                let mut i = pos;
                while i < s { out[n] = hay[i]; n += 1; i += 1; }
                out[n] = b'0' + p as u8; n += 1;
                pos = e;
            }
        }
        k += 1;
    }
    let mut i = pos;
    while i < 4 { out[n] = hay[i]; n += 1; i += 1; }
    assert!(dst.len() == n);
    let mut i = 0;
    while i < 9 { if i < n { assert!(dst[i] == out[i]); } i += 1; }
    kani::cover!(n == 1);
    kani::cover!(n == 4);
    core::mem::forget(dst);
    core::mem::forget(d);
}

pub mod gen_r;
#[cfg(kani)]
#[kani::proof]
#[kani::unwind(8)]
fn p_replace3() {
    use gen_r::d::*;
    let d = dfa::DFA::verif_from_parts(TRANS, MATCHES, PLENS, MK, STATE_LEN, ALPHA, STRIDE2, &BC, MINP, MAXP, SPECIAL);
    let hay: [u8; 3] = kani::any();
    let mut dst: Vec<u8> = Vec::with_capacity(8);
    d.try_replace_all_with_bytes(&hay[..], &mut dst, |m, _, dst| {
        dst.push(b'0' + m.pattern().as_usize() as u8);
        true
    }).unwrap();
    let mut out = [0u8; 8];
    let mut n = 0;
    let mut pos = 0;
    let mut k = 0;
    while k < 4 {
        match oracle_std(gen_r::PATS, &hay[..], pos, 3, false) {
            None => break,
            Some((p, s, e)) => {
                let mut i = pos;
                while i < s { out[n] = hay[i]; n += 1; i += 1; }
                out[n] = b'0' + p as u8; n += 1;
                pos = e;
            }
        }
        k += 1;
    }
    let mut i = pos;
    while i < 3 { out[n] = hay[i]; n += 1; i += 1; }
    assert!(dst.len() == n);
    let mut i = 0;
    while i < 7 { if i < n { assert!(dst[i] == out[i]); } i += 1; }
    kani::cover!(n == 1);
    kani::cover!(n == 3);
    core::mem::forget(dst);
    core::mem::forget(d);
}

#[cfg(kani)]
#[kani::proof]
#[kani::unwind(10)]
fn p_ac_reject() {
    use aho_corasick::{AhoCorasick, StartKind};
    // DFA built with StartKind::Both; the wrapper's start_kind is symbolic
    let sk = match kani::any::<u8>() % 3 { 0 => StartKind::Both, 1 => StartKind::Unanchored, _ => StartKind::Anchored };
    let ac = AhoCorasick::verif_from_dfa(mk_d_std(), sk);
    let hay: [u8; 4] = kani::any();
    let anch: bool = kani::any();
    let inp = Input::new(&hay[..]).anchored(if anch { Anchored::Yes } else { Anchored::No });
    let r = ac.try_find(inp.clone());
    let reject = match sk { StartKind::Both => false, StartKind::Unanchored => anch, StartKind::Anchored => !anch };
    assert!(r.is_err() == reject);
    if let Ok(got) = r {
        check(got, oracle_std(gen_std::PATS, &hay[..], 0, 4, anch));
    }
    let it = ac.try_find_iter(inp.clone());
    assert!(it.is_err() == reject);
    kani::cover!(reject);
    kani::cover!(!reject);
    core::mem::forget(it);
    core::mem::forget(ac);
}

// k-th (0-based) occurrence ending at `end` in order (start asc = longest first, pid asc)
fn nth_at(pats: &[&[u8]], hay: &[u8], n: usize, end: usize, k: usize) -> Option<(usize, usize, usize)> {
    let mut cnt = 0;
    let mut start = 0;
    while start <= end {
        let mut pid = 0;
        while pid < pats.len() {
            if pats[pid].len() == end - start && occurs(pats[pid], hay, start, n) {
                if cnt == k { return Some((pid, start, end)); }
                cnt += 1;
            }
            pid += 1;
        }
        start += 1;
    }
    None
}

#[cfg(kani)]
#[kani::proof]
#[kani::unwind(10)]
fn p_ov_step() {
    const N: usize = 5;
    let d = mk_d_std();
    let pats = gen_std::PATS;
    let hay: [u8; N] = kani::any();
    let at: usize = kani::any();
    let i: usize = kani::any();
    kani::assume(at < N && i >= 1 && i <= 4);
    // pre-state: the i-th match ending at at+1 has just been reported
    kani::assume(nth_at(pats, &hay[..], N, at + 1, i - 1).is_some());
    let mut sid = d.start_state(Anchored::No).unwrap();
    let mut j = 0;
    while j < N { if j <= at { sid = d.next_state(Anchored::No, sid, hay[j]); } j += 1; }
    let mut st = OverlappingState::verif_new(Some(sid), at, Some(i));
    d.try_find_overlapping(&Input::new(&hay[..]), &mut st).unwrap();
    let got = st.get_match();
    // expected: next at the same end, else first at a later end
    let mut want = nth_at(pats, &hay[..], N, at + 1, i);
    let mut e = at + 2;
    while e <= N {
        if want.is_none() { want = nth_at(pats, &hay[..], N, e, 0); }
        e += 1;
    }
    check(got, want);
    kani::cover!(got.is_some() && got.unwrap().end() == at + 1);
    kani::cover!(got.is_some() && got.unwrap().end() > at + 1);
    kani::cover!(got.is_none());
    core::mem::forget(d);
}

pub mod gen_p;
#[cfg(kani)]
mod pf_probe {
    use super::*;
    pub fn memchr1(n1: u8, hay: &[u8]) -> Option<usize> {
        let mut i = 0;
        while i < hay.len() { if hay[i] == n1 { return Some(i); } i += 1; }
        None
    }
    pub fn cpuid_stub(_leaf: u32, _sub: u32) -> core::arch::x86_64::CpuidResult {
        core::arch::x86_64::CpuidResult { eax: 0, ebx: 0, ecx: 0, edx: 0 }
    }

    #[kani::proof]
    #[kani::unwind(11)]
    #[kani::stub(memchr::memchr::memchr, memchr1)]
    #[kani::stub(core::arch::x86_64::__cpuid_count, cpuid_stub)]
    fn p_dfa_pf8() {
        use gen_p::d::*;
        let mut d = dfa::DFA::verif_from_parts(TRANS, MATCHES, PLENS, MK, STATE_LEN, ALPHA, STRIDE2, &BC, MINP, MAXP, SPECIAL);
        d.verif_set_prefilter(Some(aho_corasick::automaton::Prefilter::verif_start_one(b'a')));
        let hay: [u8; 8] = kani::any();
        let s: usize = kani::any();
        let e: usize = kani::any();
        kani::assume(s <= e && e <= 8);
        let inp = Input::new(&hay[..]).span(s..e);
        let got = d.try_find(&inp).unwrap();
        check(got, oracle_lf(gen_p::PATS, &hay[..], s, e, false));
        kani::cover!(got.is_some() && got.unwrap().start() >= 3);
        core::mem::forget(d);
    }
}
