use aho_corasick::{dfa, nfa::{contiguous, noncontiguous}, MatchKind, StartKind};
fn main() {
    let args: Vec<String> = std::env::args().collect();
    let mk = match args[1].as_str() { "std" => MatchKind::Standard, "lf" => MatchKind::LeftmostFirst, _ => MatchKind::LeftmostLongest };
    let pats: Vec<Vec<u8>> = args[2..].iter().map(|s| s.as_bytes().to_vec()).collect();
    let pf = std::env::var("PF").is_ok();
    let nn = noncontiguous::Builder::new().prefilter(pf).match_kind(mk).build(&pats).unwrap();
    let cn = contiguous::Builder::new().build_from_noncontiguous(&nn).unwrap();
    let d = dfa::Builder::new().start_kind(StartKind::Both).build_from_noncontiguous(&nn).unwrap();
    emit_rel(&nn, &cn, &d);
    print!("pub const PATS: &[&[u8]] = &[");
    for p in &pats { print!("&{:?}, ", p); }
    println!("];");
    println!("// prefilter: {}", d.verif_prefilter_debug());
    let r = d.verif_to_raw();
    println!("pub mod d {{");
    println!("pub const TRANS: &[u32] = &{:?};", r.trans);
    print!("pub const MATCHES: &[&[u32]] = &[");
    for m in &r.matches { print!("&{:?}, ", m); }
    println!("];");
    println!("pub const PLENS: &[u32] = &{:?};", r.pattern_lens);
    println!("pub const MK: u8 = {};", r.match_kind);
    println!("pub const STATE_LEN: usize = {};", r.state_len);
    println!("pub const ALPHA: usize = {};", r.alphabet_len);
    println!("pub const STRIDE2: usize = {};", r.stride2);
    println!("pub const BC: [u8;256] = {:?};", r.byte_classes);
    println!("pub const MINP: usize = {};", r.min_pattern_len);
    println!("pub const MAXP: usize = {};", r.max_pattern_len);
    println!("pub const SPECIAL: [u32;4] = {:?};", r.special);
    println!("}}");
    let (repr, pl, sl, mkk, al, bc, mn, mx, sp) = cn.verif_to_raw();
    println!("pub mod c {{");
    println!("pub const REPR: &[u32] = &{:?};", repr);
    println!("pub const PLENS: &[u32] = &{:?};", pl);
    println!("pub const STATE_LEN: usize = {};", sl);
    println!("pub const MK: u8 = {};", mkk);
    println!("pub const ALPHA: usize = {};", al);
    println!("pub const BC: [u8;256] = {:?};", bc);
    println!("pub const MINP: usize = {};", mn);
    println!("pub const MAXP: usize = {};", mx);
    println!("pub const SPECIAL: [u32;4] = {:?};", sp);
    println!("}}");
    let (st, spr, de, ma, pl, mkk, bc, mn, mx, sp) = nn.verif_to_raw();
    println!("pub mod n {{");
    println!("pub const STATES: &[[u32;5]] = &{:?};", st);
    println!("pub const SPARSE: &[[u32;3]] = &{:?};", spr);
    println!("pub const DENSE: &[u32] = &{:?};", de);
    println!("pub const MATCHES: &[[u32;2]] = &{:?};", ma);
    println!("pub const PLENS: &[u32] = &{:?};", pl);
    println!("pub const MK: u8 = {};", mkk);
    println!("pub const BC: [u8;256] = {:?};", bc);
    println!("pub const MINP: usize = {};", mn);
    println!("pub const MAXP: usize = {};", mx);
    println!("pub const SPECIAL: [u32;4] = {:?};", sp);
    println!("}}");
}

pub fn emit_rel(nn: &aho_corasick::nfa::noncontiguous::NFA, cn: &aho_corasick::nfa::contiguous::NFA, d: &aho_corasick::dfa::DFA) {
    use aho_corasick::{automaton::Automaton, Anchored};
    use std::collections::BTreeMap;
    // unanchored product BFS
    for (name, anch) in [("REL_U", Anchored::No), ("REL_A", Anchored::Yes)] {
        let s0 = (nn.start_state(anch).unwrap(), cn.start_state(anch).unwrap(), d.start_state(anch).unwrap());
        let mut seen: BTreeMap<u32, (u32, u32)> = BTreeMap::new();
        let mut q = vec![s0];
        seen.insert(s0.0.as_u32(), (s0.1.as_u32(), s0.2.as_u32()));
        while let Some((a, b, c)) = q.pop() {
            for byte in 0..=255u8 {
                let na = nn.next_state(anch, a, byte);
                let nb = cn.next_state(anch, b, byte);
                let nc = d.next_state(anch, c, byte);
                match seen.get(&na.as_u32()) {
                    None => { seen.insert(na.as_u32(), (nb.as_u32(), nc.as_u32())); q.push((na, nb, nc)); }
                    Some(&(x, y)) => { if x != nb.as_u32() || y != nc.as_u32() { println!("// MISMATCH in BFS at {:?} byte {}", a, byte); } }
                }
            }
        }
        print!("pub const {}: &[[u32;3]] = &[", name);
        for (k, (x, y)) in &seen { print!("[{},{},{}],", k, x, y); }
        println!("];");
    }
}
