#![allow(unused)]
use core::arch::x86_64::*;

#[cfg(kani)]
mod h {
    use super::*;

    unsafe fn unload(v: __m128i) -> [u8; 16] { core::mem::transmute(v) }

    #[kani::proof]
    #[kani::unwind(18)]
    fn simd_basic() {
        let a: [u8; 16] = kani::any();
        let b: [u8; 16] = kani::any();
        unsafe {
            let va = _mm_loadu_si128(a.as_ptr().cast());
            let vb = _mm_loadu_si128(b.as_ptr().cast());
            let and = unload(_mm_and_si128(va, vb));
            let or = unload(_mm_or_si128(va, vb));
            let eq = unload(_mm_cmpeq_epi8(va, vb));
            let sp = unload(_mm_set1_epi8(0x0F));
            let mm = _mm_movemask_epi8(_mm_cmpeq_epi8(va, vb));
            let mut i = 0;
            while i < 16 {
                assert!(and[i] == a[i] & b[i]);
                assert!(or[i] == a[i] | b[i]);
                assert!(eq[i] == if a[i] == b[i] { 0xFF } else { 0 });
                assert!(sp[i] == 0x0F);
                assert!(((mm >> i) & 1 == 1) == (a[i] == b[i]));
                i += 1;
            }
        }
    }

    #[kani::proof]
    #[kani::unwind(18)]
    fn simd_srli() {
        let a: [u8; 16] = kani::any();
        unsafe {
            let va = _mm_loadu_si128(a.as_ptr().cast());
            let r = unload(_mm_and_si128(_mm_srli_epi16(va, 4), _mm_set1_epi8(0x0F)));
            let mut i = 0;
            while i < 16 { assert!(r[i] == a[i] >> 4); i += 1; }
        }
    }

    #[kani::proof]
    #[kani::unwind(18)]
    fn simd_alignr() {
        let a: [u8; 16] = kani::any();
        let b: [u8; 16] = kani::any();
        unsafe {
            let va = _mm_loadu_si128(a.as_ptr().cast());
            let vb = _mm_loadu_si128(b.as_ptr().cast());
            let r = unload(_mm_alignr_epi8(va, vb, 15));
            assert!(r[0] == b[15]);
            let mut i = 1;
            while i < 16 { assert!(r[i] == a[i - 1]); i += 1; }
        }
    }

    #[kani::proof]
    #[kani::unwind(18)]
    fn simd_pshufb() {
        let a: [u8; 16] = kani::any();
        let b: [u8; 16] = kani::any();
        unsafe {
            let va = _mm_loadu_si128(a.as_ptr().cast());
            let vb = _mm_loadu_si128(b.as_ptr().cast());
            let r = unload(_mm_shuffle_epi8(va, vb));
            let mut i = 0;
            while i < 16 {
                let want = if b[i] & 0x80 != 0 { 0 } else { a[(b[i] & 0xF) as usize] };
                assert!(r[i] == want);
                i += 1;
            }
        }
    }
}

#[cfg(kani)]
mod h2 {
    use super::*;
    unsafe fn unload(v: __m128i) -> [u8; 16] { core::mem::transmute(v) }

    pub unsafe fn pshufb_model(a: __m128i, b: __m128i) -> __m128i {
        let a: [u8; 16] = core::mem::transmute(a);
        let b: [u8; 16] = core::mem::transmute(b);
        let mut r = [0u8; 16];
        let mut i = 0;
        while i < 16 {
            r[i] = if b[i] & 0x80 != 0 { 0 } else { a[(b[i] & 0xF) as usize] };
            i += 1;
        }
        core::mem::transmute(r)
    }

    #[kani::proof]
    #[kani::unwind(18)]
    #[kani::stub(core::arch::x86_64::_mm_shuffle_epi8, pshufb_model)]
    fn simd_pshufb_stubbed() {
        let a: [u8; 16] = kani::any();
        let b: [u8; 16] = kani::any();
        unsafe {
            let va = _mm_loadu_si128(a.as_ptr().cast());
            let vb = _mm_loadu_si128(b.as_ptr().cast());
            let r = unload(_mm_shuffle_epi8(va, vb));
            assert!(r[3] == if b[3] & 0x80 != 0 { 0 } else { a[(b[3] & 0xF) as usize] });
        }
    }
}
