#!/bin/bash
# usage: bg.sh harness timeout_s [extra args]
h=$1; t=$2; shift; shift
cd /tmp/probe
start=$(date +%s)
( ulimit -v 24000000; RUSTFLAGS="--cfg aho_corasick_verif" timeout $t cargo kani --harness $h --target-dir /tmp/probe/t_$h "$@" > /tmp/probe/$h.log 2>&1 )
rc=$?
end=$(date +%s)
echo "exit=$rc wall=$((end-start))" >> /tmp/probe/$h.log
