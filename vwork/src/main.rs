//! usage: vwork <kind> <mk> <ci> <pf> <sk> <hexpats> <hexhay> <s> <e> <anchored>
//! Runs one search on the natively built low-level automaton and prints the
//! work counters; exit 1 if a bound of the C19 `work` harness is violated.
use aho_corasick::{automaton::Automaton, Anchored, Input, MatchKind, StartKind};

fn unhex(s: &str) -> Vec<u8> {
    if s == "e" || s.is_empty() {
        return vec![];
    }
    (0..s.len() / 2).map(|i| u8::from_str_radix(&s[2 * i..2 * i + 2], 16).unwrap()).collect()
}

fn run<A: Automaton>(aut: &A, hay: &[u8], s: usize, e: usize, an: bool, is_dfa: bool) -> i32 {
    let args: Vec<String> = std::env::args().collect();
    let ov = args.get(11).map_or(false, |v| v == "1");
    let pfcode: usize = args.get(12).and_then(|v| v.parse().ok()).unwrap_or(0);
    aho_corasick::verif::count::reset();
    memchr::model_scanned_reset();
    let a = if an { Anchored::Yes } else { Anchored::No };
    if ov {
        let mut st = aho_corasick::automaton::OverlappingState::start();
        let _ = aut.try_find_overlapping(&Input::new(hay).span(s..e), &mut st);
    } else {
        let _ = aut.try_find(&Input::new(hay).span(s..e).anchored(a));
    }
    let (tr, fl, nonmono) = aho_corasick::verif::count::read();
    let (same_start_run, decreases) = memchr::model_scan_order();
    let (lo, hi) = memchr::model_scan_range();
    let base = hay.as_ptr() as usize;
    let outside = lo != 0 && (lo < base + s || hi > base + e);
    let scanned = memchr::model_scanned();
    let rescanned = (1..=3).contains(&pfcode) && scanned > 2 * (e - s) + 2;
    println!("prefilter examined {} byte(s) of a span of {} ({})", scanned, e - s, if ov { "one overlapping step" } else { "find" });
    let bad = tr > e - s || nonmono != 0 || fl > tr || (is_dfa && fl != 0) || decreases != 0 || same_start_run > 2 || outside || rescanned;
    println!(
        "work: transitions={} (span {}), failure links={}, non-monotone steps={}, prefilter scans from one offset in a row={}, scans starting earlier than their predecessor={}, prefilter scanned offsets {}..{} of span {}..{} -> {}",
        tr, e - s, fl, nonmono, same_start_run, decreases,
        if lo == 0 { 0 } else { lo - base }, if lo == 0 { 0 } else { hi - base }, s, e,
        if bad { "VIOLATION REPRODUCES" } else { "agrees" }
    );
    bad as i32
}

fn main() {
    let a: Vec<String> = std::env::args().collect();
    let mk = match a[2].as_str() { "0" => MatchKind::Standard, "1" => MatchKind::LeftmostFirst, _ => MatchKind::LeftmostLongest };
    let (ci, pf) = (a[3] == "1", a[4] == "1");
    let sk = match a[5].as_str() { "0" => StartKind::Both, "1" => StartKind::Unanchored, _ => StartKind::Anchored };
    let pats: Vec<Vec<u8>> = a[6].split(',').map(unhex).collect();
    let hay = unhex(&a[7]);
    let (s, e, an) = (a[8].parse().unwrap(), a[9].parse().unwrap(), a[10] == "1");
    let code = match a[1].as_str() {
        "dfa" => {
            let d = aho_corasick::dfa::DFA::builder().match_kind(mk).ascii_case_insensitive(ci).prefilter(pf).start_kind(sk).build(&pats).unwrap();
            run(&d, &hay, s, e, an, true)
        }
        "cnfa" => {
            let n = aho_corasick::nfa::contiguous::NFA::builder().match_kind(mk).ascii_case_insensitive(ci).prefilter(pf).build(&pats).unwrap();
            run(&n, &hay, s, e, an, false)
        }
        _ => {
            let n = aho_corasick::nfa::noncontiguous::NFA::builder().match_kind(mk).ascii_case_insensitive(ci).prefilter(pf).build(&pats).unwrap();
            run(&n, &hay, s, e, an, false)
        }
    };
    std::process::exit(code);
}
