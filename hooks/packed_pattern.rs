// hook body for packed_pattern (included into /repo under cfg(aho_corasick_verif))
