// Hook body included as `crate::packed::pattern::verif`.
use super::*;
use alloc::{vec::Vec, sync::Arc};

pub fn kind_to_u8(k: MatchKind) -> u8 {
    match k {
        MatchKind::LeftmostFirst => 1,
        MatchKind::LeftmostLongest => 2,
    }
}

pub fn kind_from_u8(k: u8) -> MatchKind {
    match k {
        1 => MatchKind::LeftmostFirst,
        _ => MatchKind::LeftmostLongest,
    }
}

/// (kind, by_id, order, minimum_len)
pub(crate) fn to_raw(p: &Patterns) -> (u8, Vec<Vec<u8>>, Vec<u32>, usize) {
    (
        kind_to_u8(p.kind),
        p.by_id.clone(),
        p.order.iter().map(|x| x.as_u32()).collect(),
        p.minimum_len,
    )
}

/// One pattern, aliasing a static.
pub fn pat(p: &'static [u8]) -> Vec<u8> {
    unsafe { Vec::from_raw_parts(p.as_ptr() as *mut u8, p.len(), p.len()) }
}

/// Rebuild around borrowed statics, loop free (`by_id` comes from a
/// `vec![pat(..), ..]` literal in the generated code).
pub(crate) fn from_parts(
    kind: u8,
    v: Vec<Vec<u8>>,
    order: &'static [u32],
    minimum_len: usize,
) -> Patterns {
    let order: Vec<PatternID> = unsafe {
        Vec::from_raw_parts(
            order.as_ptr() as *mut PatternID,
            order.len(),
            order.len(),
        )
    };
    Patterns {
        kind: kind_from_u8(kind),
        by_id: v,
        order,
        minimum_len,
        total_pattern_bytes: 0,
    }
}

/// Run the real `set_match_kind` ordering on patterns of the given lengths
/// (contents are irrelevant to the order) and return the resulting order.
pub fn order_for_lengths(kind: u8, lens: &[usize]) -> Vec<u32> {
    let mut p = Patterns::new();
    for &l in lens {
        let v = alloc::vec![b'x'; l];
        p.add(&v);
    }
    p.set_match_kind(kind_from_u8(kind));
    p.order.iter().map(|x| x.as_u32()).collect()
}

/// The verification primitives of the packed searchers, callable as units:
/// `is_prefix(haystack[from..], needle)` (Rabin-Karp) and
/// `Pattern::is_prefix_raw(start, end)` (Teddy), both built on `is_equal_raw`.
pub fn prim_is_prefix(hay: &[u8], from: usize, needle: &[u8]) -> bool {
    is_prefix(&hay[from..], needle)
}

pub fn prim_is_prefix_raw(hay: &[u8], from: usize, needle: &[u8]) -> bool {
    assert!(from <= hay.len());
    unsafe {
        Pattern(needle)
            .is_prefix_raw(hay.as_ptr().add(from), hay.as_ptr().add(hay.len()))
    }
}
