// Hook body included as `crate::verif`.

/// Work counters for the bounded-work property (C19).
pub mod count {
    use core::sync::atomic::{AtomicUsize, Ordering::Relaxed};

    pub static TRANSITIONS: AtomicUsize = AtomicUsize::new(0);
    pub static FAILS: AtomicUsize = AtomicUsize::new(0);
    /// 1 + the position passed to the most recent `transition` call.
    pub static LAST_AT1: AtomicUsize = AtomicUsize::new(0);
    /// Number of `transition` calls whose position did not strictly increase.
    pub static NON_MONOTONE: AtomicUsize = AtomicUsize::new(0);

    #[inline(always)]
    pub fn transition(at: usize) {
        TRANSITIONS.store(TRANSITIONS.load(Relaxed) + 1, Relaxed);
        let last = LAST_AT1.load(Relaxed);
        if last != 0 && at + 1 <= last {
            NON_MONOTONE.store(NON_MONOTONE.load(Relaxed) + 1, Relaxed);
        }
        LAST_AT1.store(at + 1, Relaxed);
    }

    #[inline(always)]
    pub fn fail() {
        FAILS.store(FAILS.load(Relaxed) + 1, Relaxed);
    }

    pub fn reset() {
        TRANSITIONS.store(0, Relaxed);
        FAILS.store(0, Relaxed);
        LAST_AT1.store(0, Relaxed);
        NON_MONOTONE.store(0, Relaxed);
    }

    /// (transitions, failure-link traversals, non-monotone steps)
    pub fn read() -> (usize, usize, usize) {
        (TRANSITIONS.load(Relaxed), FAILS.load(Relaxed), NON_MONOTONE.load(Relaxed))
    }
}

pub use crate::ahocorasick::verif as ac;
pub use crate::automaton::verif as automaton;
pub use crate::dfa::verif as dfa;
pub use crate::nfa::contiguous::verif as cnfa;
pub use crate::nfa::noncontiguous::verif as nnfa;
pub use crate::util::alphabet::verif as alphabet;
#[cfg(feature = "std")]
pub use crate::util::buffer::verif as buffer;
pub use crate::util::prefilter::verif as prefilter;
pub use crate::packed::verif as packed;
