// hook body for rabinkarp (included into /repo under cfg(aho_corasick_verif))
