// Hook body included as `crate::packed::rabinkarp::verif`.
use super::*;
use alloc::{vec::Vec, sync::Arc};

pub type Entry = (Hash, PatternID);

pub const fn entry(h: usize, p: u32) -> Entry {
    (h, PatternID::new_unchecked(p as usize))
}

/// (buckets as (hash, pid), hash_len, hash_2pow)
pub(crate) fn to_raw(rk: &RabinKarp) -> (Vec<Vec<(usize, u32)>>, usize, usize) {
    (
        rk.buckets
            .iter()
            .map(|b| b.iter().map(|&(h, p)| (h, p.as_u32())).collect())
            .collect(),
        rk.hash_len,
        rk.hash_2pow,
    )
}

unsafe fn alias(b: &'static [Entry]) -> Vec<Entry> {
    Vec::from_raw_parts(b.as_ptr() as *mut Entry, b.len(), b.len())
}

/// Rebuild around borrowed statics, loop free (64 buckets written out).
pub(crate) fn from_parts(
    patterns: Arc<Patterns>,
    b: &'static [&'static [Entry]; 64],
    hash_len: usize,
    hash_2pow: usize,
) -> RabinKarp {
    let buckets: Vec<Vec<Entry>> = unsafe {
        alloc::vec![
            alias(b[0]), alias(b[1]), alias(b[2]), alias(b[3]), alias(b[4]),
            alias(b[5]), alias(b[6]), alias(b[7]), alias(b[8]), alias(b[9]),
            alias(b[10]), alias(b[11]), alias(b[12]), alias(b[13]),
            alias(b[14]), alias(b[15]), alias(b[16]), alias(b[17]),
            alias(b[18]), alias(b[19]), alias(b[20]), alias(b[21]),
            alias(b[22]), alias(b[23]), alias(b[24]), alias(b[25]),
            alias(b[26]), alias(b[27]), alias(b[28]), alias(b[29]),
            alias(b[30]), alias(b[31]), alias(b[32]), alias(b[33]),
            alias(b[34]), alias(b[35]), alias(b[36]), alias(b[37]),
            alias(b[38]), alias(b[39]), alias(b[40]), alias(b[41]),
            alias(b[42]), alias(b[43]), alias(b[44]), alias(b[45]),
            alias(b[46]), alias(b[47]), alias(b[48]), alias(b[49]),
            alias(b[50]), alias(b[51]), alias(b[52]), alias(b[53]),
            alias(b[54]), alias(b[55]), alias(b[56]), alias(b[57]),
            alias(b[58]), alias(b[59]), alias(b[60]), alias(b[61]),
            alias(b[62]), alias(b[63]),
        ]
    };
    RabinKarp { patterns, buckets, hash_len, hash_2pow }
}
