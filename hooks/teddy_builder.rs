// Hook body included as `crate::packed::teddy::builder::verif`.
use super::*;

#[cfg(all(target_arch = "x86_64", target_feature = "sse2"))]
pub use super::x86_64::verif as x86;
