// hook body for teddy_builder (included into /repo under cfg(aho_corasick_verif))
