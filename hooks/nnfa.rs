// Hook body included as `crate::nfa::noncontiguous::verif`.
use super::*;
use crate::dfa::verif::{mk_from_u8, mk_to_u8};

#[derive(Clone, Debug)]
pub struct RawNnfa {
    /// [sparse, dense, matches, fail, depth]
    pub states: Vec<[u32; 5]>,
    /// [byte, next, link]
    pub sparse: Vec<[u32; 3]>,
    pub dense: Vec<u32>,
    /// [pid, link]
    pub matches: Vec<[u32; 2]>,
    pub pattern_lens: Vec<u32>,
    pub match_kind: u8,
    pub byte_classes: [u8; 256],
    pub min_pattern_len: usize,
    pub max_pattern_len: usize,
    pub special: [u32; 4],
    pub has_prefilter: bool,
    pub prefilter_debug: alloc::string::String,
}

pub fn to_raw(n: &NFA) -> RawNnfa {
    RawNnfa {
        states: n
            .states
            .iter()
            .map(|s| {
                [
                    s.sparse.as_u32(),
                    s.dense.as_u32(),
                    s.matches.as_u32(),
                    s.fail.as_u32(),
                    s.depth.as_u32(),
                ]
            })
            .collect(),
        sparse: n
            .sparse
            .iter()
            .map(|t| [u32::from(t.byte), t.next().as_u32(), t.link().as_u32()])
            .collect(),
        dense: n.dense.iter().map(|s| s.as_u32()).collect(),
        matches: n
            .matches
            .iter()
            .map(|m| [m.pattern().as_u32(), m.link().as_u32()])
            .collect(),
        pattern_lens: n.pattern_lens.iter().map(|l| l.as_u32()).collect(),
        match_kind: mk_to_u8(n.match_kind),
        byte_classes: crate::util::alphabet::verif::byte_classes_to_array(
            &n.byte_classes,
        ),
        min_pattern_len: n.min_pattern_len,
        max_pattern_len: n.max_pattern_len,
        special: [
            n.special.max_special_id.as_u32(),
            n.special.max_match_id.as_u32(),
            n.special.start_unanchored_id.as_u32(),
            n.special.start_anchored_id.as_u32(),
        ],
        has_prefilter: n.prefilter.is_some(),
        prefilter_debug: alloc::format!("{:?}", n.prefilter),
    }
}

/// Transparent wrappers so that generated `static`s in the harness crate can
/// hold values of the crate's private element types.
#[repr(transparent)]
pub struct VState(State);
#[repr(transparent)]
pub struct VTransition(Transition);
#[repr(transparent)]
pub struct VMatch(Match);

pub const fn state(a: [u32; 5]) -> VState {
    VState(State {
        sparse: StateID::new_unchecked(a[0] as usize),
        dense: StateID::new_unchecked(a[1] as usize),
        matches: StateID::new_unchecked(a[2] as usize),
        fail: StateID::new_unchecked(a[3] as usize),
        depth: SmallIndex::new_unchecked(a[4] as usize),
    })
}

pub const fn transition(a: [u32; 3]) -> VTransition {
    VTransition(Transition {
        byte: a[0] as u8,
        next: StateID::new_unchecked(a[1] as usize),
        link: StateID::new_unchecked(a[2] as usize),
    })
}

pub const fn mat(a: [u32; 2]) -> VMatch {
    VMatch(Match {
        pid: PatternID::new_unchecked(a[0] as usize),
        link: StateID::new_unchecked(a[1] as usize),
    })
}

/// Rebuild around borrowed statics (loop free); callers `mem::forget` it.
pub fn from_parts(
    states: &'static [VState],
    sparse: &'static [VTransition],
    dense: &'static [u32],
    matches: &'static [VMatch],
    pattern_lens: &'static [u32],
    match_kind: u8,
    byte_classes: &'static [u8; 256],
    min_pattern_len: usize,
    max_pattern_len: usize,
    special: [u32; 4],
) -> NFA {
    let sid = |x: u32| StateID::new_unchecked(x as usize);
    unsafe fn alias<T, U>(src: &[T]) -> Vec<U> {
        Vec::from_raw_parts(src.as_ptr() as *mut U, src.len(), src.len())
    }
    // see dfa.rs: unnamed (future) fields come from an all-zero value
    let base = unsafe { core::mem::MaybeUninit::<NFA>::zeroed().assume_init() };
    NFA {
        match_kind: mk_from_u8(match_kind),
        states: unsafe { alias::<VState, State>(states) },
        sparse: unsafe { alias::<VTransition, Transition>(sparse) },
        dense: unsafe { alias::<u32, StateID>(dense) },
        matches: unsafe { alias::<VMatch, Match>(matches) },
        pattern_lens: unsafe { alias::<u32, SmallIndex>(pattern_lens) },
        prefilter: None,
        byte_classes: crate::util::alphabet::verif::byte_classes_from_array(
            *byte_classes,
        ),
        min_pattern_len,
        max_pattern_len,
        special: Special {
            max_special_id: sid(special[0]),
            max_match_id: sid(special[1]),
            start_unanchored_id: sid(special[2]),
            start_anchored_id: sid(special[3]),
        },
        ..base
    }
}

pub fn set_prefilter(n: &mut NFA, pre: Option<Prefilter>) {
    n.prefilter = pre;
}

pub fn take_prefilter(n: &NFA) -> Option<Prefilter> {
    n.prefilter.clone()
}

/// (fail target, recorded depth of state i, recorded depth of its fail target,
/// whether i is a start state or one of the DEAD/FAIL sentinels, whether the
/// fail target is the unanchored start state or DEAD). The builder records
/// `depth` as the index of the byte that created the state, i.e. the true
/// trie depth minus one for every non-start state (start states: 0).
pub fn fail_and_depth(n: &NFA, i: usize) -> (u32, usize, usize, bool, bool) {
    let s = &n.states[i];
    let f = s.fail;
    let sentinel = i <= 1
        || i == n.special.start_unanchored_id.as_usize()
        || i == n.special.start_anchored_id.as_usize();
    let to_root = f == n.special.start_unanchored_id || f == NFA::DEAD;
    (f.as_u32(), s.depth.as_usize(), n.states[f].depth.as_usize(), sentinel, to_root)
}
