// hook body for prefilter (included into /repo under cfg(aho_corasick_verif))
