// Hook body included as `crate::util::prefilter::verif`.
use super::*;

/// What `Builder::build` selected, with the parameters needed to rebuild it.
#[derive(Clone, Debug)]
pub enum Desc {
    None,
    Start1(u8),
    Start2(u8, u8),
    Start3(u8, u8, u8),
    Rare1(u8, u8),
    Rare2([u8; 256], u8, u8),
    Rare3([u8; 256], u8, u8, u8),
    Memmem(Vec<u8>),
    Packed,
    Unknown(alloc::string::String),
}

fn offsets_to_array(o: &RareByteOffsets) -> [u8; 256] {
    let mut a = [0u8; 256];
    for i in 0..256 {
        a[i] = o.set[i].max;
    }
    a
}

fn offsets_from_array(a: &[u8; 256]) -> RareByteOffsets {
    // loop free: RareByteOffset is a single u8, RareByteOffsets a [_; 256]
    unsafe { core::mem::transmute::<[u8; 256], RareByteOffsets>(*a) }
}

/// Describe a built prefilter. The concrete type behind the trait object is
/// established from its own `Debug` output.
#[cfg(feature = "perf-literal")]
pub fn describe(p: Option<&Prefilter>) -> Desc {
    let p = match p {
        None => return Desc::None,
        Some(p) => p,
    };
    let dbg = alloc::format!("{:?}", p.finder);
    let raw = Arc::as_ptr(&p.finder) as *const u8;
    unsafe {
        if dbg.starts_with("StartBytesOne") {
            let f = &*(raw as *const StartBytesOne);
            Desc::Start1(f.byte1)
        } else if dbg.starts_with("StartBytesTwo") {
            let f = &*(raw as *const StartBytesTwo);
            Desc::Start2(f.byte1, f.byte2)
        } else if dbg.starts_with("StartBytesThree") {
            let f = &*(raw as *const StartBytesThree);
            Desc::Start3(f.byte1, f.byte2, f.byte3)
        } else if dbg.starts_with("RareBytesOne") {
            let f = &*(raw as *const RareBytesOne);
            Desc::Rare1(f.byte1, f.offset.max)
        } else if dbg.starts_with("RareBytesTwo") {
            let f = &*(raw as *const RareBytesTwo);
            Desc::Rare2(offsets_to_array(&f.offsets), f.byte1, f.byte2)
        } else if dbg.starts_with("RareBytesThree") {
            let f = &*(raw as *const RareBytesThree);
            Desc::Rare3(offsets_to_array(&f.offsets), f.byte1, f.byte2, f.byte3)
        } else if dbg.starts_with("Memmem") {
            let f = &*(raw as *const Memmem);
            Desc::Memmem(f.0.needle().to_vec())
        } else if dbg.starts_with("Packed") {
            Desc::Packed
        } else {
            Desc::Unknown(dbg)
        }
    }
}

#[cfg(feature = "perf-literal")]
pub fn packed_searcher(p: &Prefilter) -> Option<&crate::packed::Searcher> {
    let dbg = alloc::format!("{:?}", p.finder);
    if dbg.starts_with("Packed") {
        let raw = Arc::as_ptr(&p.finder) as *const Packed;
        Some(unsafe { &(*raw).0 })
    } else {
        None
    }
}

#[cfg(feature = "perf-literal")]
pub fn start1(b1: u8) -> Prefilter {
    Prefilter { finder: Arc::new(StartBytesOne { byte1: b1 }), memory_usage: 0 }
}
#[cfg(feature = "perf-literal")]
pub fn start2(b1: u8, b2: u8) -> Prefilter {
    Prefilter {
        finder: Arc::new(StartBytesTwo { byte1: b1, byte2: b2 }),
        memory_usage: 0,
    }
}
#[cfg(feature = "perf-literal")]
pub fn start3(b1: u8, b2: u8, b3: u8) -> Prefilter {
    Prefilter {
        finder: Arc::new(StartBytesThree { byte1: b1, byte2: b2, byte3: b3 }),
        memory_usage: 0,
    }
}
#[cfg(feature = "perf-literal")]
pub fn rare1(b1: u8, off: u8) -> Prefilter {
    Prefilter {
        // (fields this hook does not know - a change that adds state to the
        // finder - start zeroed instead of breaking the build)
        #[allow(clippy::needless_update)]
        finder: Arc::new(RareBytesOne {
            byte1: b1,
            offset: RareByteOffset { max: off },
            ..unsafe { core::mem::MaybeUninit::zeroed().assume_init() }
        }),
        memory_usage: 0,
    }
}
#[cfg(feature = "perf-literal")]
pub fn rare2(offsets: &[u8; 256], b1: u8, b2: u8) -> Prefilter {
    Prefilter {
        #[allow(clippy::needless_update)]
        finder: Arc::new(RareBytesTwo {
            offsets: offsets_from_array(offsets),
            byte1: b1,
            byte2: b2,
            ..unsafe { core::mem::MaybeUninit::zeroed().assume_init() }
        }),
        memory_usage: 0,
    }
}
#[cfg(feature = "perf-literal")]
pub fn rare3(offsets: &[u8; 256], b1: u8, b2: u8, b3: u8) -> Prefilter {
    Prefilter {
        #[allow(clippy::needless_update)]
        finder: Arc::new(RareBytesThree {
            offsets: offsets_from_array(offsets),
            byte1: b1,
            byte2: b2,
            byte3: b3,
            ..unsafe { core::mem::MaybeUninit::zeroed().assume_init() }
        }),
        memory_usage: 0,
    }
}
#[cfg(all(feature = "std", feature = "perf-literal"))]
pub fn memmem(needle: &'static [u8]) -> Prefilter {
    Prefilter {
        finder: Arc::new(Memmem(memchr::memmem::Finder::new(needle))),
        memory_usage: needle.len(),
    }
}
#[cfg(feature = "perf-literal")]
pub fn packed(s: crate::packed::Searcher) -> Prefilter {
    Prefilter { finder: Arc::new(Packed(s)), memory_usage: 0 }
}

/// The real letter flip used by the builders.
pub fn opposite_case(b: u8) -> u8 {
    opposite_ascii_case(b)
}

/// Run the real rare-byte builder on the given patterns and then the built
/// prefilter on a haystack. Returns (built?, candidate start).
#[cfg(feature = "perf-literal")]
pub fn rare_candidate(
    pats: &[&[u8]],
    ci: bool,
    hay: &[u8],
    s: usize,
    e: usize,
) -> (bool, Option<usize>) {
    let mut b = RareBytesBuilder::new().ascii_case_insensitive(ci);
    for p in pats {
        b.add(p);
    }
    match b.build() {
        None => (false, None),
        Some(pre) => {
            let c = pre.find_in(hay, Span { start: s, end: e });
            let r = c.into_option();
            core::mem::forget(pre);
            (true, r)
        }
    }
}

/// Same for the start-byte builder.
#[cfg(feature = "perf-literal")]
pub fn start_candidate(
    pats: &[&[u8]],
    ci: bool,
    hay: &[u8],
    s: usize,
    e: usize,
) -> (bool, Option<usize>) {
    let mut b = StartBytesBuilder::new().ascii_case_insensitive(ci);
    for p in pats {
        b.add(p);
    }
    match b.build() {
        None => (false, None),
        Some(pre) => {
            let c = pre.find_in(hay, Span { start: s, end: e });
            let r = c.into_option();
            core::mem::forget(pre);
            (true, r)
        }
    }
}
