// Hook body included as `crate::packed::teddy::verif`.
pub use super::builder::verif as builder;
pub use super::generic::verif as generic;
