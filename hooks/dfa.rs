// Hook body included as `crate::dfa::verif`.
use super::*;

#[derive(Clone, Debug)]
pub struct RawDfa {
    pub trans: Vec<u32>,
    pub matches: Vec<Vec<u32>>,
    pub pattern_lens: Vec<u32>,
    pub match_kind: u8,
    pub state_len: usize,
    pub alphabet_len: usize,
    pub stride2: usize,
    pub byte_classes: [u8; 256],
    pub min_pattern_len: usize,
    pub max_pattern_len: usize,
    /// max_special, max_match, start_unanchored, start_anchored
    pub special: [u32; 4],
    pub has_prefilter: bool,
    pub prefilter_debug: alloc::string::String,
}

pub fn mk_to_u8(k: MatchKind) -> u8 {
    match k {
        MatchKind::Standard => 0,
        MatchKind::LeftmostFirst => 1,
        MatchKind::LeftmostLongest => 2,
    }
}

pub fn mk_from_u8(k: u8) -> MatchKind {
    match k {
        0 => MatchKind::Standard,
        1 => MatchKind::LeftmostFirst,
        _ => MatchKind::LeftmostLongest,
    }
}

pub fn to_raw(d: &DFA) -> RawDfa {
    RawDfa {
        trans: d.trans.iter().map(|s| s.as_u32()).collect(),
        matches: d
            .matches
            .iter()
            .map(|v| v.iter().map(|p| p.as_u32()).collect())
            .collect(),
        pattern_lens: d.pattern_lens.iter().map(|l| l.as_u32()).collect(),
        match_kind: mk_to_u8(d.match_kind),
        state_len: d.state_len,
        alphabet_len: d.alphabet_len,
        stride2: d.stride2,
        byte_classes: crate::util::alphabet::verif::byte_classes_to_array(
            &d.byte_classes,
        ),
        min_pattern_len: d.min_pattern_len,
        max_pattern_len: d.max_pattern_len,
        special: [
            d.special.max_special_id.as_u32(),
            d.special.max_match_id.as_u32(),
            d.special.start_unanchored_id.as_u32(),
            d.special.start_anchored_id.as_u32(),
        ],
        has_prefilter: d.prefilter.is_some(),
        prefilter_debug: alloc::format!("{:?}", d.prefilter),
    }
}

/// One row of the match table, aliasing a static.
pub fn row(r: &'static [u32]) -> Vec<PatternID> {
    unsafe {
        Vec::from_raw_parts(r.as_ptr() as *mut PatternID, r.len(), r.len())
    }
}

/// Rebuild a DFA around borrowed `'static` tables, loop free (the generated
/// code builds `matches` from a `vec![row(..), ..]` literal). The inner
/// vectors alias the statics and must never be dropped or mutated: callers
/// `mem::forget` the result.
pub fn from_parts(
    trans: &'static [u32],
    m: Vec<Vec<PatternID>>,
    pattern_lens: &'static [u32],
    match_kind: u8,
    state_len: usize,
    alphabet_len: usize,
    stride2: usize,
    byte_classes: &'static [u8; 256],
    min_pattern_len: usize,
    max_pattern_len: usize,
    special: [u32; 4],
) -> DFA {
    let bc = crate::util::alphabet::verif::byte_classes_from_array(
        *byte_classes,
    );
    // StateID/PatternID/SmallIndex are repr(transparent) over u32.
    let t: Vec<StateID> = unsafe {
        Vec::from_raw_parts(
            trans.as_ptr() as *mut StateID,
            trans.len(),
            trans.len(),
        )
    };
    let pl: Vec<SmallIndex> = unsafe {
        Vec::from_raw_parts(
            pattern_lens.as_ptr() as *mut SmallIndex,
            pattern_lens.len(),
            pattern_lens.len(),
        )
    };
    // Fields not named here (a change to the crate may add some) come from an
    // all-zero value of the type; the parts of it that are not used are empty
    // vectors / None / zero ids, whose drop is a no-op.
    let base = unsafe { core::mem::MaybeUninit::<DFA>::zeroed().assume_init() };
    DFA {
        trans: t,
        matches: m,
        matches_memory_usage: 0,
        pattern_lens: pl,
        prefilter: None,
        match_kind: mk_from_u8(match_kind),
        state_len,
        alphabet_len,
        stride2,
        byte_classes: bc,
        min_pattern_len,
        max_pattern_len,
        special: Special {
            max_special_id: StateID::new_unchecked(special[0] as usize),
            max_match_id: StateID::new_unchecked(special[1] as usize),
            start_unanchored_id: StateID::new_unchecked(special[2] as usize),
            start_anchored_id: StateID::new_unchecked(special[3] as usize),
        },
        ..base
    }
}

pub fn set_prefilter(d: &mut DFA, pre: Option<Prefilter>) {
    d.prefilter = pre;
}

pub fn take_prefilter(d: &DFA) -> Option<Prefilter> {
    d.prefilter.clone()
}
