// Hook body included as `crate::packed::verif`.
pub use super::api::verif as api;
pub use super::pattern::verif as pattern;
pub use super::rabinkarp::verif as rabinkarp;
pub use super::teddy::verif as teddy;
