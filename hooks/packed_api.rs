// Hook body included as `crate::packed::api::verif`.
use super::*;
use alloc::{vec::Vec, sync::Arc};
use crate::packed::{pattern::verif as pv, rabinkarp::verif as rv};

/// Raw dump of a packed searcher.
#[derive(Clone, Debug)]
pub struct RawSearcher {
    pub kind: u8,
    pub by_id: Vec<Vec<u8>>,
    pub order: Vec<u32>,
    pub patterns_minimum_len: usize,
    pub rk_buckets: Vec<Vec<(usize, u32)>>,
    pub rk_hash_len: usize,
    pub rk_hash_2pow: usize,
    /// "RabinKarp" or the Teddy implementation name, e.g. "SlimSSSE3<2>"
    pub imp: alloc::string::String,
    pub minimum_len: usize,
    pub teddy_buckets: Vec<Vec<u32>>,
    pub teddy_masks: Vec<([u8; 16], [u8; 16])>,
    pub teddy_rebuildable: bool,
    /// 0 = 128-bit slim (SSSE3), 1 = slim AVX2 (128-bit + 256-bit halves),
    /// 2 = fat AVX2
    pub teddy_variant: u8,
    pub teddy_buckets256: Vec<Vec<u32>>,
    pub teddy_masks256: Vec<([u8; 32], [u8; 32])>,
}

pub fn to_raw(s: &Searcher) -> RawSearcher {
    let (kind, by_id, order, pml) = pv::to_raw(&s.patterns);
    let (rk_buckets, rk_hash_len, rk_hash_2pow) = rv::to_raw(&s.rabinkarp);
    let mut raw = RawSearcher {
        kind,
        by_id,
        order,
        patterns_minimum_len: pml,
        rk_buckets,
        rk_hash_len,
        rk_hash_2pow,
        imp: alloc::string::String::from("RabinKarp"),
        minimum_len: s.minimum_len,
        teddy_buckets: Vec::new(),
        teddy_masks: Vec::new(),
        teddy_rebuildable: false,
        teddy_variant: 0,
        teddy_buckets256: Vec::new(),
        teddy_masks256: Vec::new(),
    };
    #[cfg(all(target_arch = "x86_64", target_feature = "sse2"))]
    if let SearchKind::Teddy(ref t) = s.search_kind {
        let (name, _min, tables) =
            crate::packed::teddy::verif::builder::x86::describe(t);
        raw.imp = name;
        if let Some((b, m)) = tables {
            raw.teddy_buckets = b;
            raw.teddy_masks = m;
            raw.teddy_rebuildable = true;
        }
        if let Some((v, b, m)) =
            crate::packed::teddy::verif::builder::x86::describe256(t)
        {
            raw.teddy_variant = v;
            raw.teddy_buckets256 = b;
            raw.teddy_masks256 = m;
            raw.teddy_rebuildable = true;
        }
    }
    raw
}

/// Rebuild a packed searcher around borrowed statics. `teddy_bytes` is 0 for
/// a Rabin-Karp-only searcher, otherwise the fingerprint length (1..=4) of a
/// 128-bit slim Teddy.
pub fn from_parts(
    kind: u8,
    by_id: Vec<Vec<u8>>,
    order: &'static [u32],
    patterns_minimum_len: usize,
    rk_buckets: &'static [&'static [rv::Entry]; 64],
    rk_hash_len: usize,
    rk_hash_2pow: usize,
    teddy_bytes: usize,
    teddy_buckets: &'static [&'static [u32]; 8],
    teddy_masks: &'static [([u8; 16], [u8; 16])],
    minimum_len: usize,
    teddy_variant: u8,
    teddy_buckets256: &'static [&'static [u32]; 16],
    teddy_masks256: &'static [([u8; 32], [u8; 32])],
) -> Searcher {
    let patterns =
        Arc::new(pv::from_parts(kind, by_id, order, patterns_minimum_len));
    let rabinkarp = rv::from_parts(
        Arc::clone(&patterns),
        rk_buckets,
        rk_hash_len,
        rk_hash_2pow,
    );
    #[cfg(all(target_arch = "x86_64", target_feature = "sse2"))]
    let search_kind = {
        use crate::packed::teddy::verif::builder::x86;
        let p = || Arc::clone(&patterns);
        match (teddy_variant, teddy_bytes) {
            (_, 0) => SearchKind::RabinKarp,
            (1, 1) => SearchKind::Teddy(x86::slim_avx2_1(p(), teddy_buckets, teddy_masks, teddy_buckets256, teddy_masks256)),
            (1, 2) => SearchKind::Teddy(x86::slim_avx2_2(p(), teddy_buckets, teddy_masks, teddy_buckets256, teddy_masks256)),
            (1, 3) => SearchKind::Teddy(x86::slim_avx2_3(p(), teddy_buckets, teddy_masks, teddy_buckets256, teddy_masks256)),
            (1, _) => SearchKind::Teddy(x86::slim_avx2_4(p(), teddy_buckets, teddy_masks, teddy_buckets256, teddy_masks256)),
            (2, 1) => SearchKind::Teddy(x86::fat_avx2_1(p(), teddy_buckets256, teddy_masks256)),
            (2, 2) => SearchKind::Teddy(x86::fat_avx2_2(p(), teddy_buckets256, teddy_masks256)),
            (2, 3) => SearchKind::Teddy(x86::fat_avx2_3(p(), teddy_buckets256, teddy_masks256)),
            (2, _) => SearchKind::Teddy(x86::fat_avx2_4(p(), teddy_buckets256, teddy_masks256)),
            (_, b) => match b {
            0 => SearchKind::RabinKarp,
            1 => SearchKind::Teddy(x86::slim_ssse3_1(Arc::clone(&patterns), teddy_buckets, teddy_masks)),
            2 => SearchKind::Teddy(x86::slim_ssse3_2(Arc::clone(&patterns), teddy_buckets, teddy_masks)),
            3 => SearchKind::Teddy(x86::slim_ssse3_3(Arc::clone(&patterns), teddy_buckets, teddy_masks)),
            _ => SearchKind::Teddy(x86::slim_ssse3_4(Arc::clone(&patterns), teddy_buckets, teddy_masks)),
            },
        }
    };
    #[cfg(not(all(target_arch = "x86_64", target_feature = "sse2")))]
    let search_kind = SearchKind::RabinKarp;
    Searcher { patterns, rabinkarp, search_kind, minimum_len }
}

/// A packed `FindIter` positioned on an arbitrary span (the public
/// constructor always starts with the full haystack).
pub fn find_iter_at<'s, 'h>(
    searcher: &'s Searcher,
    haystack: &'h [u8],
    span: Span,
) -> FindIter<'s, 'h> {
    FindIter { searcher, haystack, span }
}

/// `Searcher::find_in` for the 256-bit Teddy variants without the trait
/// object (see the note in the teddy builder hook): the vector path is called
/// on the concrete implementation; spans shorter than its minimum length are
/// outside this entry point (the Rabin-Karp fallback has its own harnesses)
/// and yield `Err(minimum_len)`.
#[cfg(all(target_arch = "x86_64", target_feature = "sse2"))]
pub fn avx2_find_in(
    kind: u8,
    by_id: Vec<Vec<u8>>,
    order: &'static [u32],
    patterns_minimum_len: usize,
    teddy_variant: u8,
    teddy_bytes: usize,
    teddy_buckets: &'static [&'static [u32]; 8],
    teddy_masks: &'static [([u8; 16], [u8; 16])],
    teddy_buckets256: &'static [&'static [u32]; 16],
    teddy_masks256: &'static [([u8; 32], [u8; 32])],
    haystack: &[u8],
    span: Span,
) -> Result<Option<Match>, usize> {
    use crate::packed::teddy::verif::builder::x86;
    let patterns =
        Arc::new(pv::from_parts(kind, by_id, order, patterns_minimum_len));
    let hay = &haystack[..span.end];
    let at = span.start;
    let (min, r) = match (teddy_variant, teddy_bytes) {
        (1, 1) => x86::slim_avx2_find_1(patterns, teddy_buckets, teddy_masks, teddy_buckets256, teddy_masks256, hay, at),
        (1, 2) => x86::slim_avx2_find_2(patterns, teddy_buckets, teddy_masks, teddy_buckets256, teddy_masks256, hay, at),
        (1, 3) => x86::slim_avx2_find_3(patterns, teddy_buckets, teddy_masks, teddy_buckets256, teddy_masks256, hay, at),
        (1, _) => x86::slim_avx2_find_4(patterns, teddy_buckets, teddy_masks, teddy_buckets256, teddy_masks256, hay, at),
        (_, 1) => x86::fat_avx2_find_1(patterns, teddy_buckets256, teddy_masks256, hay, at),
        (_, 2) => x86::fat_avx2_find_2(patterns, teddy_buckets256, teddy_masks256, hay, at),
        (_, 3) => x86::fat_avx2_find_3(patterns, teddy_buckets256, teddy_masks256, hay, at),
        (_, _) => x86::fat_avx2_find_4(patterns, teddy_buckets256, teddy_masks256, hay, at),
    };
    if hay.len() - at < min {
        return Err(min);
    }
    Ok(r)
}
