// hook body for packed_api (included into /repo under cfg(aho_corasick_verif))
