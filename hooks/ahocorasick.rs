// Hook body included as `crate::ahocorasick::verif`.
use super::*;

/// 0 = noncontiguous NFA, 1 = contiguous NFA, 2 = DFA.
pub fn kind_to_u8(k: AhoCorasickKind) -> u8 {
    match k {
        AhoCorasickKind::NoncontiguousNFA => 0,
        AhoCorasickKind::ContiguousNFA => 1,
        AhoCorasickKind::DFA => 2,
    }
}

pub fn sk_from_u8(k: u8) -> StartKind {
    match k {
        0 => StartKind::Both,
        1 => StartKind::Unanchored,
        _ => StartKind::Anchored,
    }
}

pub fn from_dfa(d: crate::dfa::DFA, start_kind: StartKind) -> AhoCorasick {
    AhoCorasick { aut: Arc::new(d), kind: AhoCorasickKind::DFA, start_kind }
}

pub fn from_cnfa(
    n: crate::nfa::contiguous::NFA,
    start_kind: StartKind,
) -> AhoCorasick {
    AhoCorasick {
        aut: Arc::new(n),
        kind: AhoCorasickKind::ContiguousNFA,
        start_kind,
    }
}

pub fn from_nnfa(
    n: crate::nfa::noncontiguous::NFA,
    start_kind: StartKind,
) -> AhoCorasick {
    AhoCorasick {
        aut: Arc::new(n),
        kind: AhoCorasickKind::NoncontiguousNFA,
        start_kind,
    }
}

fn debug_prefix(ac: &AhoCorasick) -> alloc::string::String {
    let s = alloc::format!("{:?}", ac.aut);
    s.chars().take(24).collect()
}

/// Borrow the concrete automaton behind the trait object. The concrete type
/// is established from the automaton's own `Debug` output, not from the
/// `kind` label, and both must agree.
pub fn as_dfa(ac: &AhoCorasick) -> Option<&crate::dfa::DFA> {
    if ac.kind == AhoCorasickKind::DFA && debug_prefix(ac).starts_with("dfa::DFA(") {
        let p = Arc::as_ptr(&ac.aut) as *const crate::dfa::DFA;
        Some(unsafe { &*p })
    } else {
        None
    }
}

pub fn as_cnfa(ac: &AhoCorasick) -> Option<&crate::nfa::contiguous::NFA> {
    if ac.kind == AhoCorasickKind::ContiguousNFA
        && debug_prefix(ac).starts_with("contiguous::NFA(")
    {
        let p = Arc::as_ptr(&ac.aut) as *const crate::nfa::contiguous::NFA;
        Some(unsafe { &*p })
    } else {
        None
    }
}

pub fn as_nnfa(ac: &AhoCorasick) -> Option<&crate::nfa::noncontiguous::NFA> {
    if ac.kind == AhoCorasickKind::NoncontiguousNFA
        && debug_prefix(ac).starts_with("noncontiguous::NFA(")
    {
        let p = Arc::as_ptr(&ac.aut) as *const crate::nfa::noncontiguous::NFA;
        Some(unsafe { &*p })
    } else {
        None
    }
}
