// Hook body included as `crate::ahocorasick::verif`.
use super::*;

/// 0 = noncontiguous NFA, 1 = contiguous NFA, 2 = DFA.
pub fn kind_to_u8(k: AhoCorasickKind) -> u8 {
    match k {
        AhoCorasickKind::NoncontiguousNFA => 0,
        AhoCorasickKind::ContiguousNFA => 1,
        AhoCorasickKind::DFA => 2,
    }
}

pub fn sk_from_u8(k: u8) -> StartKind {
    match k {
        0 => StartKind::Both,
        1 => StartKind::Unanchored,
        _ => StartKind::Anchored,
    }
}

pub fn from_dfa(d: crate::dfa::DFA, start_kind: StartKind) -> AhoCorasick {
    AhoCorasick { aut: Arc::new(d), kind: AhoCorasickKind::DFA, start_kind }
}

pub fn from_cnfa(
    n: crate::nfa::contiguous::NFA,
    start_kind: StartKind,
) -> AhoCorasick {
    AhoCorasick {
        aut: Arc::new(n),
        kind: AhoCorasickKind::ContiguousNFA,
        start_kind,
    }
}

pub fn from_nnfa(
    n: crate::nfa::noncontiguous::NFA,
    start_kind: StartKind,
) -> AhoCorasick {
    AhoCorasick {
        aut: Arc::new(n),
        kind: AhoCorasickKind::NoncontiguousNFA,
        start_kind,
    }
}

fn debug_prefix(ac: &AhoCorasick) -> alloc::string::String {
    let s = alloc::format!("{:?}", ac.aut);
    s.chars().take(24).collect()
}

/// Borrow the concrete automaton behind the trait object. The concrete type
/// is established from the automaton's own `Debug` output, not from the
/// `kind` label, and both must agree.
pub fn as_dfa(ac: &AhoCorasick) -> Option<&crate::dfa::DFA> {
    if ac.kind == AhoCorasickKind::DFA && debug_prefix(ac).starts_with("dfa::DFA(") {
        let p = Arc::as_ptr(&ac.aut) as *const crate::dfa::DFA;
        Some(unsafe { &*p })
    } else {
        None
    }
}

pub fn as_cnfa(ac: &AhoCorasick) -> Option<&crate::nfa::contiguous::NFA> {
    if ac.kind == AhoCorasickKind::ContiguousNFA
        && debug_prefix(ac).starts_with("contiguous::NFA(")
    {
        let p = Arc::as_ptr(&ac.aut) as *const crate::nfa::contiguous::NFA;
        Some(unsafe { &*p })
    } else {
        None
    }
}

pub fn as_nnfa(ac: &AhoCorasick) -> Option<&crate::nfa::noncontiguous::NFA> {
    if ac.kind == AhoCorasickKind::NoncontiguousNFA
        && debug_prefix(ac).starts_with("noncontiguous::NFA(")
    {
        let p = Arc::as_ptr(&ac.aut) as *const crate::nfa::noncontiguous::NFA;
        Some(unsafe { &*p })
    } else {
        None
    }
}

// ---- the `impl Automaton for Arc<dyn AcAutomaton>` forwarders, one by one
// (stream search and the iterators of the top-level searcher go through them)

pub fn fwd_meta(ac: &AhoCorasick) -> (usize, usize, usize, MatchKind, bool) {
    let a = &ac.aut;
    (
        Automaton::patterns_len(a),
        Automaton::min_pattern_len(a),
        Automaton::max_pattern_len(a),
        Automaton::match_kind(a),
        Automaton::prefilter(a).is_some(),
    )
}

pub fn fwd_pattern_len(ac: &AhoCorasick, pid: PatternID) -> usize {
    Automaton::pattern_len(&ac.aut, pid)
}

pub fn fwd_start_state(
    ac: &AhoCorasick,
    anchored: Anchored,
) -> Result<StateID, MatchError> {
    Automaton::start_state(&ac.aut, anchored)
}

pub fn fwd_next_state(
    ac: &AhoCorasick,
    anchored: Anchored,
    sid: StateID,
    byte: u8,
) -> StateID {
    Automaton::next_state(&ac.aut, anchored, sid, byte)
}

/// (is_special, is_dead, is_match, is_start)
pub fn fwd_flags(ac: &AhoCorasick, sid: StateID) -> (bool, bool, bool, bool) {
    let a = &ac.aut;
    (
        Automaton::is_special(a, sid),
        Automaton::is_dead(a, sid),
        Automaton::is_match(a, sid),
        Automaton::is_start(a, sid),
    )
}

pub fn fwd_match_len(ac: &AhoCorasick, sid: StateID) -> usize {
    Automaton::match_len(&ac.aut, sid)
}

pub fn fwd_match_pattern(
    ac: &AhoCorasick,
    sid: StateID,
    index: usize,
) -> PatternID {
    Automaton::match_pattern(&ac.aut, sid, index)
}

/// State of a freshly constructed top-level stream iterator (see
/// `automaton::verif::stream_parts`).
#[cfg(feature = "std")]
pub fn stream_parts<'a, R>(
    it: &StreamFindIter<'a, R>,
) -> (StateID, StateID, usize, usize, usize, usize, usize, usize) {
    crate::automaton::verif::stream_parts(&it.0)
}
