// Hook body included as `crate::automaton::verif`.
use super::*;

pub fn overlapping_state(
    id: Option<StateID>,
    at: usize,
    next_match_index: Option<usize>,
) -> OverlappingState {
    OverlappingState { mat: None, id, at, next_match_index }
}

/// (id, at, next_match_index) of an overlapping state.
pub fn overlapping_parts(
    s: &OverlappingState,
) -> (Option<StateID>, usize, Option<usize>) {
    (s.id, s.at, s.next_match_index)
}

/// (input.start, last_match_end) of a non-overlapping iterator.
pub fn find_iter_parts<'a, 'h, A>(
    it: &FindIter<'a, 'h, A>,
) -> (usize, Option<usize>) {
    (it.input.start(), it.last_match_end)
}

#[cfg(feature = "std")]
pub use self::stream::*;

#[cfg(feature = "std")]
mod stream {
    use super::*;

    /// Observable result of one `StreamChunkIter::next` call plus the
    /// iterator's post-state.
    #[derive(Clone, Copy, Debug)]
    pub struct Post {
        /// 0 = None, 1 = NonMatch, 2 = Match, 3 = Err
        pub kind: u8,
        /// chunk range in post-call buffer coordinates
        pub chunk_start: usize,
        pub chunk_len: usize,
        pub mat: Option<Match>,
        pub sid: StateID,
        pub absolute_pos: usize,
        pub buffer_pos: usize,
        pub buffer_reported_pos: usize,
        pub buf_end: usize,
    }

    /// Build a `StreamChunkIter` in an arbitrary state, run one `next()`, and
    /// return what it yielded, the post-state, and the post-call buffer
    /// contents (`buf[..cap]`, with `buf_end` valid bytes).
    pub fn step<A: Automaton, R: std::io::Read>(
        aut: &A,
        rdr: R,
        bufdata: Vec<u8>,
        min: usize,
        end: usize,
        sid: StateID,
        absolute_pos: usize,
        buffer_pos: usize,
        buffer_reported_pos: usize,
        out_buf: &mut [u8],
    ) -> Post {
        let start = aut.start_state(Anchored::No).unwrap();
        let mut it = StreamChunkIter {
            aut,
            rdr,
            buf: crate::util::buffer::verif::buffer_from(bufdata, min, end),
            start,
            sid,
            absolute_pos,
            buffer_pos,
            buffer_reported_pos,
        };
        let base = it.buf.buffer().as_ptr() as usize;
        let (kind, cs, cl, mat) = match it.next() {
            None => (0u8, 0, 0, None),
            Some(Err(e)) => {
                core::mem::forget(e);
                (3u8, 0, 0, None)
            }
            Some(Ok(StreamChunk::NonMatch { bytes })) => {
                (1u8, bytes.as_ptr() as usize - base, bytes.len(), None)
            }
            Some(Ok(StreamChunk::Match { bytes, mat })) => {
                (2u8, bytes.as_ptr() as usize - base, bytes.len(), Some(mat))
            }
        };
        let post = Post {
            kind,
            chunk_start: cs,
            chunk_len: cl,
            mat,
            sid: it.sid,
            absolute_pos: it.absolute_pos,
            buffer_pos: it.buffer_pos,
            buffer_reported_pos: it.buffer_reported_pos,
            buf_end: crate::util::buffer::verif::buffer_end(&it.buf),
        };
        let StreamChunkIter { buf, .. } = it;
        let b = buf.buffer();
        let mut i = 0;
        while i < out_buf.len() {
            if i < b.len() {
                out_buf[i] = b[i];
            }
            i += 1;
        }
        core::mem::forget(buf);
        post
    }
}

/// State of a freshly constructed stream iterator:
/// (sid, start id, absolute_pos, buffer_pos, buffer_reported_pos, buffer end,
/// buffer capacity, buffer min).
#[cfg(feature = "std")]
pub fn stream_parts<'a, A: Automaton, R>(
    it: &StreamFindIter<'a, A, R>,
) -> (StateID, StateID, usize, usize, usize, usize, usize, usize) {
    let c = &it.it;
    (
        c.sid,
        c.start,
        c.absolute_pos,
        c.buffer_pos,
        c.buffer_reported_pos,
        crate::util::buffer::verif::buffer_end(&c.buf),
        crate::util::buffer::verif::buffer_cap(&c.buf),
        c.buf.min_buffer_len(),
    )
}

/// C12: an *abstract searcher*. `try_find` answers a search whose span starts
/// at `s` with `table[s]` = (present, pattern id, start, end); everything else
/// of the `Automaton` contract is never reached by the non-overlapping
/// iterator or the replace drivers. The replace routines are thereby checked
/// against the splice of whatever the iterator yields, for every search
/// function (which every real automaton is an instance of).
pub struct ScriptAut {
    pub table: [(bool, u8, u8, u8); 8],
    pub std: bool,
}

impl private::Sealed for ScriptAut {}

unsafe impl Automaton for ScriptAut {
    fn start_state(&self, _anchored: Anchored) -> Result<StateID, MatchError> {
        Ok(StateID::ZERO)
    }
    fn next_state(&self, _a: Anchored, _sid: StateID, _b: u8) -> StateID {
        unreachable!("the abstract searcher is never walked")
    }
    fn is_special(&self, _sid: StateID) -> bool {
        unreachable!("the abstract searcher is never walked")
    }
    fn is_dead(&self, _sid: StateID) -> bool {
        unreachable!("the abstract searcher is never walked")
    }
    fn is_match(&self, _sid: StateID) -> bool {
        unreachable!("the abstract searcher is never walked")
    }
    fn is_start(&self, _sid: StateID) -> bool {
        unreachable!("the abstract searcher is never walked")
    }
    fn match_kind(&self) -> MatchKind {
        if self.std {
            MatchKind::Standard
        } else {
            MatchKind::LeftmostFirst
        }
    }
    fn match_len(&self, _sid: StateID) -> usize {
        unreachable!("the abstract searcher is never walked")
    }
    fn match_pattern(&self, _sid: StateID, _index: usize) -> PatternID {
        unreachable!("the abstract searcher is never walked")
    }
    fn patterns_len(&self) -> usize {
        2
    }
    fn pattern_len(&self, _pid: PatternID) -> usize {
        unreachable!("the abstract searcher is never walked")
    }
    fn min_pattern_len(&self) -> usize {
        0
    }
    fn max_pattern_len(&self) -> usize {
        8
    }
    fn memory_usage(&self) -> usize {
        0
    }
    fn prefilter(&self) -> Option<&Prefilter> {
        None
    }
    fn try_find(
        &self,
        input: &Input<'_>,
    ) -> Result<Option<Match>, MatchError> {
        if input.is_done() || input.start() >= self.table.len() {
            return Ok(None);
        }
        let (present, pid, s, e) = self.table[input.start()];
        if !present {
            return Ok(None);
        }
        Ok(Some(Match::new(
            PatternID::new_unchecked(pid as usize),
            (s as usize)..(e as usize),
        )))
    }
}
