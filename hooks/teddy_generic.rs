// Hook body included as `crate::packed::teddy::generic::verif`.
use super::*;
use alloc::{vec::Vec, sync::Arc};

/// Dump of a slim 128-bit Teddy: buckets (pattern ids) and (lo, hi) masks.
#[cfg(target_arch = "x86_64")]
pub(crate) fn slim128_to_raw<const BYTES: usize>(
    s: &Slim<core::arch::x86_64::__m128i, BYTES>,
) -> (Vec<Vec<u32>>, Vec<([u8; 16], [u8; 16])>) {
    let buckets = s
        .teddy
        .buckets
        .iter()
        .map(|b| b.iter().map(|p| p.as_u32()).collect())
        .collect();
    let masks = s
        .masks
        .iter()
        .map(|m| unsafe {
            (core::mem::transmute(m.lo), core::mem::transmute(m.hi))
        })
        .collect();
    (buckets, masks)
}

unsafe fn alias(b: &'static [u32]) -> Vec<PatternID> {
    Vec::from_raw_parts(b.as_ptr() as *mut PatternID, b.len(), b.len())
}

/// Rebuild a slim 128-bit Teddy around borrowed statics, loop free.
#[cfg(target_arch = "x86_64")]
pub(crate) unsafe fn slim128_from_parts<const BYTES: usize>(
    patterns: Arc<Patterns>,
    b: &'static [&'static [u32]; 8],
    masks: &'static [([u8; 16], [u8; 16])],
) -> Slim<core::arch::x86_64::__m128i, BYTES> {
    use core::arch::x86_64::__m128i;
    let buckets: [Vec<PatternID>; 8] = [
        alias(b[0]), alias(b[1]), alias(b[2]), alias(b[3]),
        alias(b[4]), alias(b[5]), alias(b[6]), alias(b[7]),
    ];
    let teddy: Teddy<8> = Teddy { patterns, buckets };
    let mk = |i: usize| Mask::<__m128i> {
        lo: core::mem::transmute::<[u8; 16], __m128i>(masks[i].0),
        hi: core::mem::transmute::<[u8; 16], __m128i>(masks[i].1),
    };
    let masks: [Mask<__m128i>; BYTES] = core::array::from_fn(mk);
    Slim { teddy, masks }
}

// ---- 256-bit variants (slim AVX2: 8 buckets; fat AVX2: 16 buckets)

#[cfg(target_arch = "x86_64")]
fn masks256_to_raw<const BYTES: usize>(
    masks: &[Mask<core::arch::x86_64::__m256i>; BYTES],
) -> Vec<([u8; 32], [u8; 32])> {
    masks
        .iter()
        .map(|m| unsafe {
            (core::mem::transmute(m.lo), core::mem::transmute(m.hi))
        })
        .collect()
}

#[cfg(target_arch = "x86_64")]
unsafe fn masks256_from<const BYTES: usize>(
    masks: &'static [([u8; 32], [u8; 32])],
) -> [Mask<core::arch::x86_64::__m256i>; BYTES] {
    use core::arch::x86_64::__m256i;
    let mk = |i: usize| Mask::<__m256i> {
        lo: core::mem::transmute::<[u8; 32], __m256i>(masks[i].0),
        hi: core::mem::transmute::<[u8; 32], __m256i>(masks[i].1),
    };
    core::array::from_fn(mk)
}

#[cfg(target_arch = "x86_64")]
pub(crate) fn slim256_to_raw<const BYTES: usize>(
    s: &Slim<core::arch::x86_64::__m256i, BYTES>,
) -> (Vec<Vec<u32>>, Vec<([u8; 32], [u8; 32])>) {
    let buckets = s
        .teddy
        .buckets
        .iter()
        .map(|b| b.iter().map(|p| p.as_u32()).collect())
        .collect();
    (buckets, masks256_to_raw(&s.masks))
}

#[cfg(target_arch = "x86_64")]
pub(crate) fn fat256_to_raw<const BYTES: usize>(
    s: &Fat<core::arch::x86_64::__m256i, BYTES>,
) -> (Vec<Vec<u32>>, Vec<([u8; 32], [u8; 32])>) {
    let buckets = s
        .teddy
        .buckets
        .iter()
        .map(|b| b.iter().map(|p| p.as_u32()).collect())
        .collect();
    (buckets, masks256_to_raw(&s.masks))
}

/// Rebuild a slim 256-bit Teddy around borrowed statics, loop free. The first
/// eight entries of `b` are its buckets.
#[cfg(target_arch = "x86_64")]
pub(crate) unsafe fn slim256_from_parts<const BYTES: usize>(
    patterns: Arc<Patterns>,
    b: &'static [&'static [u32]; 16],
    masks: &'static [([u8; 32], [u8; 32])],
) -> Slim<core::arch::x86_64::__m256i, BYTES> {
    let buckets: [Vec<PatternID>; 8] = [
        alias(b[0]), alias(b[1]), alias(b[2]), alias(b[3]),
        alias(b[4]), alias(b[5]), alias(b[6]), alias(b[7]),
    ];
    let teddy: Teddy<8> = Teddy { patterns, buckets };
    Slim { teddy, masks: masks256_from::<BYTES>(masks) }
}

/// Rebuild a fat 256-bit Teddy (16 buckets) around borrowed statics.
#[cfg(target_arch = "x86_64")]
pub(crate) unsafe fn fat256_from_parts<const BYTES: usize>(
    patterns: Arc<Patterns>,
    b: &'static [&'static [u32]; 16],
    masks: &'static [([u8; 32], [u8; 32])],
) -> Fat<core::arch::x86_64::__m256i, BYTES> {
    let buckets: [Vec<PatternID>; 16] = [
        alias(b[0]), alias(b[1]), alias(b[2]), alias(b[3]),
        alias(b[4]), alias(b[5]), alias(b[6]), alias(b[7]),
        alias(b[8]), alias(b[9]), alias(b[10]), alias(b[11]),
        alias(b[12]), alias(b[13]), alias(b[14]), alias(b[15]),
    ];
    let teddy: Teddy<16> = Teddy { patterns, buckets };
    Fat { teddy, masks: masks256_from::<BYTES>(masks) }
}
