// hook body for teddy_generic (included into /repo under cfg(aho_corasick_verif))
