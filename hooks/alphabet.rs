// Hook body included as `crate::util::alphabet::verif`.
use super::*;

/// Rebuild a `ByteClasses` from its 256-entry table.
pub(crate) fn byte_classes_from_array(a: [u8; 256]) -> ByteClasses {
    ByteClasses(a)
}

/// Dump the 256-entry table of a `ByteClasses`.
pub(crate) fn byte_classes_to_array(bc: &ByteClasses) -> [u8; 256] {
    bc.0
}

/// Run the real `ByteClassSet` on the given ranges and return the resulting
/// class table (used by the unit harness with symbolic ranges).
pub fn classes_for_ranges(ranges: &[(u8, u8)]) -> [u8; 256] {
    let mut set = ByteClassSet::empty();
    for &(a, b) in ranges {
        set.set_range(a, b);
    }
    set.byte_classes().0
}
