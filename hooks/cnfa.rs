// Hook body included as `crate::nfa::contiguous::verif`.
use super::*;
use crate::dfa::verif::{mk_from_u8, mk_to_u8};

#[derive(Clone, Debug)]
pub struct RawCnfa {
    pub repr: Vec<u32>,
    pub pattern_lens: Vec<u32>,
    pub state_len: usize,
    pub match_kind: u8,
    pub alphabet_len: usize,
    pub byte_classes: [u8; 256],
    pub min_pattern_len: usize,
    pub max_pattern_len: usize,
    pub special: [u32; 4],
    pub has_prefilter: bool,
}

pub fn to_raw(n: &NFA) -> RawCnfa {
    RawCnfa {
        repr: n.repr.clone(),
        pattern_lens: n.pattern_lens.iter().map(|l| l.as_u32()).collect(),
        state_len: n.state_len,
        match_kind: mk_to_u8(n.match_kind),
        alphabet_len: n.alphabet_len,
        byte_classes: crate::util::alphabet::verif::byte_classes_to_array(
            &n.byte_classes,
        ),
        min_pattern_len: n.min_pattern_len,
        max_pattern_len: n.max_pattern_len,
        special: [
            n.special.max_special_id.as_u32(),
            n.special.max_match_id.as_u32(),
            n.special.start_unanchored_id.as_u32(),
            n.special.start_anchored_id.as_u32(),
        ],
        has_prefilter: n.prefilter.is_some(),
    }
}

/// Rebuild around borrowed statics (loop free); callers `mem::forget` it.
pub fn from_parts(
    repr: &'static [u32],
    pattern_lens: &'static [u32],
    state_len: usize,
    match_kind: u8,
    alphabet_len: usize,
    byte_classes: &'static [u8; 256],
    min_pattern_len: usize,
    max_pattern_len: usize,
    special: [u32; 4],
) -> NFA {
    let pl: Vec<SmallIndex> = unsafe {
        Vec::from_raw_parts(
            pattern_lens.as_ptr() as *mut SmallIndex,
            pattern_lens.len(),
            pattern_lens.len(),
        )
    };
    // see dfa.rs: unnamed (future) fields come from an all-zero value
    let base = unsafe { core::mem::MaybeUninit::<NFA>::zeroed().assume_init() };
    NFA {
        repr: unsafe {
            Vec::from_raw_parts(
                repr.as_ptr() as *mut u32,
                repr.len(),
                repr.len(),
            )
        },
        pattern_lens: pl,
        state_len,
        prefilter: None,
        match_kind: mk_from_u8(match_kind),
        alphabet_len,
        byte_classes: crate::util::alphabet::verif::byte_classes_from_array(
            *byte_classes,
        ),
        min_pattern_len,
        max_pattern_len,
        special: Special {
            max_special_id: StateID::new_unchecked(special[0] as usize),
            max_match_id: StateID::new_unchecked(special[1] as usize),
            start_unanchored_id: StateID::new_unchecked(special[2] as usize),
            start_anchored_id: StateID::new_unchecked(special[3] as usize),
        },
        ..base
    }
}

pub fn set_prefilter(n: &mut NFA, pre: Option<Prefilter>) {
    n.prefilter = pre;
}

/// For every state (by id = offset in `repr`): (id, kind, ntrans, fail).
/// kind: 0 = sparse, 1 = one, 2 = dense.
pub fn state_table(n: &NFA) -> Vec<(u32, u8, u32, u32)> {
    let mut out = Vec::new();
    let mut o = 0usize;
    while o < n.repr.len() {
        let sid = StateID::new_unchecked(o);
        let is_match = n.is_match(sid);
        let raw = &n.repr[o..];
        let kind = raw[0] & 0xFF;
        let st = State::read(n.alphabet_len, is_match, raw);
        let (k, nt) = if kind == State::KIND_DENSE {
            (2u8, n.alphabet_len as u32)
        } else if kind == State::KIND_ONE {
            (1u8, 1u32)
        } else {
            (0u8, kind)
        };
        out.push((o as u32, k, nt, st.fail.as_u32()));
        o += State::len(n.alphabet_len, is_match, raw);
    }
    out
}
