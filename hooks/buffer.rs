// Hook body included as `crate::util::buffer::verif`.
use super::*;

/// Spare capacity override for `Buffer::new`: capacity = min + spare.
/// `usize::MAX` means "no override".
pub static SPARE: core::sync::atomic::AtomicUsize =
    core::sync::atomic::AtomicUsize::new(usize::MAX);

pub fn set_spare_capacity(spare: Option<usize>) {
    SPARE.store(
        spare.unwrap_or(usize::MAX),
        core::sync::atomic::Ordering::SeqCst,
    );
}

pub(crate) fn capacity_override(min: usize, default: usize) -> usize {
    let v = SPARE.load(core::sync::atomic::Ordering::SeqCst);
    if v == usize::MAX {
        default
    } else {
        min + core::cmp::max(1, v)
    }
}

pub(crate) fn buffer_from(buf: Vec<u8>, min: usize, end: usize) -> Buffer {
    Buffer { buf, min, end }
}

pub(crate) fn buffer_end(b: &Buffer) -> usize {
    b.end
}

pub(crate) fn buffer_cap(b: &Buffer) -> usize {
    b.buf.len()
}
