// Hook body included as `crate::packed::teddy::builder::x86_64::verif`.
use super::*;
use alloc::{vec::Vec, sync::Arc};

/// Which implementation sits behind a teddy `Searcher` (from its `Debug`
/// output) and, for the 128-bit slim ones, its raw tables.
pub(crate) fn describe(
    s: &Searcher,
) -> (alloc::string::String, usize, Option<(Vec<Vec<u32>>, Vec<([u8; 16], [u8; 16])>)>) {
    let dbg = alloc::format!("{:?}", s.imp);
    let name: alloc::string::String =
        dbg.chars().take_while(|c| *c != ' ' && *c != '{').collect();
    let raw = Arc::as_ptr(&s.imp) as *const u8;
    // derive(Debug) prints the bare struct name; for the 128-bit slim variant
    // the fingerprint length follows from minimum_len = 16 + BYTES - 1.
    let bytes = s.minimum_len.wrapping_sub(15);
    let tables = unsafe {
        if name == "SlimSSSE3" && bytes == 1 {
            Some(generic::verif::slim128_to_raw(&(*(raw as *const SlimSSSE3<1>)).slim128))
        } else if name == "SlimSSSE3" && bytes == 2 {
            Some(generic::verif::slim128_to_raw(&(*(raw as *const SlimSSSE3<2>)).slim128))
        } else if name == "SlimSSSE3" && bytes == 3 {
            Some(generic::verif::slim128_to_raw(&(*(raw as *const SlimSSSE3<3>)).slim128))
        } else if name == "SlimSSSE3" && bytes == 4 {
            Some(generic::verif::slim128_to_raw(&(*(raw as *const SlimSSSE3<4>)).slim128))
        } else if name == "SlimAVX2" && bytes == 1 {
            // the 256-bit slim searcher carries a 128-bit one for haystacks
            // shorter than two vectors; that half is what gets rebuilt
            Some(generic::verif::slim128_to_raw(&(*(raw as *const SlimAVX2<1>)).slim128))
        } else if name == "SlimAVX2" && bytes == 2 {
            Some(generic::verif::slim128_to_raw(&(*(raw as *const SlimAVX2<2>)).slim128))
        } else if name == "SlimAVX2" && bytes == 3 {
            Some(generic::verif::slim128_to_raw(&(*(raw as *const SlimAVX2<3>)).slim128))
        } else if name == "SlimAVX2" && bytes == 4 {
            Some(generic::verif::slim128_to_raw(&(*(raw as *const SlimAVX2<4>)).slim128))
        } else {
            None
        }
    };
    (name, s.minimum_len, tables)
}

macro_rules! rebuild {
    ($fname:ident, $len:expr) => {
        pub(crate) fn $fname(
            patterns: Arc<Patterns>,
            buckets: &'static [&'static [u32]; 8],
            masks: &'static [([u8; 16], [u8; 16])],
        ) -> Searcher {
            let slim128 = unsafe {
                generic::verif::slim128_from_parts::<$len>(patterns, buckets, masks)
            };
            let minimum_len = slim128.minimum_len();
            let imp = Arc::new(SlimSSSE3::<$len> { slim128 });
            Searcher { imp, memory_usage: 0, minimum_len }
        }
    };
}
rebuild!(slim_ssse3_1, 1);
rebuild!(slim_ssse3_2, 2);
rebuild!(slim_ssse3_3, 3);
rebuild!(slim_ssse3_4, 4);

/// 256-bit tables of a teddy `Searcher`: (variant, buckets, (lo, hi) masks)
/// with variant 1 = slim AVX2 (8 buckets), 2 = fat AVX2 (16 buckets);
/// `None` for the 128-bit implementation.
pub(crate) fn describe256(
    s: &Searcher,
) -> Option<(u8, Vec<Vec<u32>>, Vec<([u8; 32], [u8; 32])>)> {
    let dbg = alloc::format!("{:?}", s.imp);
    let name: alloc::string::String =
        dbg.chars().take_while(|c| *c != ' ' && *c != '{').collect();
    let raw = Arc::as_ptr(&s.imp) as *const u8;
    unsafe {
        if name == "SlimAVX2" {
            // minimum_len is the 128-bit half's: 16 + BYTES - 1
            let bytes = s.minimum_len.wrapping_sub(15);
            let (b, m) = match bytes {
                1 => generic::verif::slim256_to_raw(&(*(raw as *const SlimAVX2<1>)).slim256),
                2 => generic::verif::slim256_to_raw(&(*(raw as *const SlimAVX2<2>)).slim256),
                3 => generic::verif::slim256_to_raw(&(*(raw as *const SlimAVX2<3>)).slim256),
                4 => generic::verif::slim256_to_raw(&(*(raw as *const SlimAVX2<4>)).slim256),
                _ => return None,
            };
            Some((1, b, m))
        } else if name == "FatAVX2" {
            let bytes = s.minimum_len.wrapping_sub(15);
            let (b, m) = match bytes {
                1 => generic::verif::fat256_to_raw(&(*(raw as *const FatAVX2<1>)).fat256),
                2 => generic::verif::fat256_to_raw(&(*(raw as *const FatAVX2<2>)).fat256),
                3 => generic::verif::fat256_to_raw(&(*(raw as *const FatAVX2<3>)).fat256),
                4 => generic::verif::fat256_to_raw(&(*(raw as *const FatAVX2<4>)).fat256),
                _ => return None,
            };
            Some((2, b, m))
        } else {
            None
        }
    }
}

macro_rules! rebuild_avx2 {
    ($slim:ident, $fat:ident, $len:expr) => {
        pub(crate) fn $slim(
            patterns: Arc<Patterns>,
            buckets: &'static [&'static [u32]; 8],
            masks: &'static [([u8; 16], [u8; 16])],
            buckets256: &'static [&'static [u32]; 16],
            masks256: &'static [([u8; 32], [u8; 32])],
        ) -> Searcher {
            let slim128 = unsafe {
                generic::verif::slim128_from_parts::<$len>(Arc::clone(&patterns), buckets, masks)
            };
            let slim256 = unsafe {
                generic::verif::slim256_from_parts::<$len>(patterns, buckets256, masks256)
            };
            let minimum_len = slim128.minimum_len();
            let imp = Arc::new(SlimAVX2::<$len> { slim128, slim256 });
            Searcher { imp, memory_usage: 0, minimum_len }
        }
        pub(crate) fn $fat(
            patterns: Arc<Patterns>,
            buckets256: &'static [&'static [u32]; 16],
            masks256: &'static [([u8; 32], [u8; 32])],
        ) -> Searcher {
            let fat256 = unsafe {
                generic::verif::fat256_from_parts::<$len>(patterns, buckets256, masks256)
            };
            let minimum_len = fat256.minimum_len();
            let imp = Arc::new(FatAVX2::<$len> { fat256 });
            Searcher { imp, memory_usage: 0, minimum_len }
        }
    };
}
rebuild_avx2!(slim_avx2_1, fat_avx2_1, 1);
rebuild_avx2!(slim_avx2_2, fat_avx2_2, 2);
rebuild_avx2!(slim_avx2_3, fat_avx2_3, 3);
rebuild_avx2!(slim_avx2_4, fat_avx2_4, 4);

// ---- direct calls (no trait object) for the 256-bit variants.
//
// Kani 0.68 mis-models `Arc<dyn Trait>` around a payload with 32-byte
// alignment (a 12-line reproducer fails with "dereference failure: pointer
// invalid"; with a 16-byte aligned payload it passes), which is exactly what
// `Searcher { imp: Arc<dyn SearcherT> }` is for `SlimAVX2`/`FatAVX2`. The
// harnesses therefore call the concrete implementation through `find_with`,
// whose body is that of `Searcher::find` with `self.imp` replaced by the
// concrete value; the wrapper itself is exercised by the 128-bit harnesses.

use crate::packed::ext::Pointer;

fn find_with<T: SearcherT>(
    imp: &T,
    minimum_len: usize,
    haystack: &[u8],
    at: usize,
) -> Option<crate::Match> {
    assert!(haystack[at..].len() >= minimum_len);
    let hayptr = haystack.as_ptr();
    let teddym =
        unsafe { imp.find(hayptr.add(at), hayptr.add(haystack.len()))? };
    let start = teddym.start().as_usize().wrapping_sub(hayptr.as_usize());
    let end = teddym.end().as_usize().wrapping_sub(hayptr.as_usize());
    let span = crate::Span { start, end };
    let pid = crate::PatternID::new_unchecked(teddym.pattern().as_usize());
    Some(crate::Match::new(pid, span))
}

macro_rules! direct_avx2 {
    ($slim:ident, $fat:ident, $len:expr) => {
        pub(crate) fn $slim(
            patterns: Arc<Patterns>,
            buckets: &'static [&'static [u32]; 8],
            masks: &'static [([u8; 16], [u8; 16])],
            buckets256: &'static [&'static [u32]; 16],
            masks256: &'static [([u8; 32], [u8; 32])],
            haystack: &[u8],
            at: usize,
        ) -> (usize, Option<crate::Match>) {
            let slim128 = unsafe {
                generic::verif::slim128_from_parts::<$len>(Arc::clone(&patterns), buckets, masks)
            };
            let slim256 = unsafe {
                generic::verif::slim256_from_parts::<$len>(patterns, buckets256, masks256)
            };
            let minimum_len = slim128.minimum_len();
            let imp = SlimAVX2::<$len> { slim128, slim256 };
            if haystack.len() - at < minimum_len {
                core::mem::forget(imp);
                return (minimum_len, None);
            }
            let r = find_with(&imp, minimum_len, haystack, at);
            core::mem::forget(imp);
            (minimum_len, r)
        }
        pub(crate) fn $fat(
            patterns: Arc<Patterns>,
            buckets256: &'static [&'static [u32]; 16],
            masks256: &'static [([u8; 32], [u8; 32])],
            haystack: &[u8],
            at: usize,
        ) -> (usize, Option<crate::Match>) {
            let fat256 = unsafe {
                generic::verif::fat256_from_parts::<$len>(patterns, buckets256, masks256)
            };
            let minimum_len = fat256.minimum_len();
            let imp = FatAVX2::<$len> { fat256 };
            if haystack.len() - at < minimum_len {
                core::mem::forget(imp);
                return (minimum_len, None);
            }
            let r = find_with(&imp, minimum_len, haystack, at);
            core::mem::forget(imp);
            (minimum_len, r)
        }
    };
}
direct_avx2!(slim_avx2_find_1, fat_avx2_find_1, 1);
direct_avx2!(slim_avx2_find_2, fat_avx2_find_2, 2);
direct_avx2!(slim_avx2_find_3, fat_avx2_find_3, 3);
direct_avx2!(slim_avx2_find_4, fat_avx2_find_4, 4);
