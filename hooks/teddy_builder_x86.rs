// Hook body included as `crate::packed::teddy::builder::x86_64::verif`.
use super::*;
use alloc::{vec::Vec, sync::Arc};

/// Which implementation sits behind a teddy `Searcher` (from its `Debug`
/// output) and, for the 128-bit slim ones, its raw tables.
pub(crate) fn describe(
    s: &Searcher,
) -> (alloc::string::String, usize, Option<(Vec<Vec<u32>>, Vec<([u8; 16], [u8; 16])>)>) {
    let dbg = alloc::format!("{:?}", s.imp);
    let name: alloc::string::String =
        dbg.chars().take_while(|c| *c != ' ' && *c != '{').collect();
    let raw = Arc::as_ptr(&s.imp) as *const u8;
    // derive(Debug) prints the bare struct name; for the 128-bit slim variant
    // the fingerprint length follows from minimum_len = 16 + BYTES - 1.
    let bytes = s.minimum_len.wrapping_sub(15);
    let tables = unsafe {
        if name == "SlimSSSE3" && bytes == 1 {
            Some(generic::verif::slim128_to_raw(&(*(raw as *const SlimSSSE3<1>)).slim128))
        } else if name == "SlimSSSE3" && bytes == 2 {
            Some(generic::verif::slim128_to_raw(&(*(raw as *const SlimSSSE3<2>)).slim128))
        } else if name == "SlimSSSE3" && bytes == 3 {
            Some(generic::verif::slim128_to_raw(&(*(raw as *const SlimSSSE3<3>)).slim128))
        } else if name == "SlimSSSE3" && bytes == 4 {
            Some(generic::verif::slim128_to_raw(&(*(raw as *const SlimSSSE3<4>)).slim128))
        } else if name == "SlimAVX2" && bytes == 1 {
            // the 256-bit slim searcher carries a 128-bit one for haystacks
            // shorter than two vectors; that half is what gets rebuilt
            Some(generic::verif::slim128_to_raw(&(*(raw as *const SlimAVX2<1>)).slim128))
        } else if name == "SlimAVX2" && bytes == 2 {
            Some(generic::verif::slim128_to_raw(&(*(raw as *const SlimAVX2<2>)).slim128))
        } else if name == "SlimAVX2" && bytes == 3 {
            Some(generic::verif::slim128_to_raw(&(*(raw as *const SlimAVX2<3>)).slim128))
        } else if name == "SlimAVX2" && bytes == 4 {
            Some(generic::verif::slim128_to_raw(&(*(raw as *const SlimAVX2<4>)).slim128))
        } else {
            None
        }
    };
    (name, s.minimum_len, tables)
}

macro_rules! rebuild {
    ($fname:ident, $len:expr) => {
        pub(crate) fn $fname(
            patterns: Arc<Patterns>,
            buckets: &'static [&'static [u32]; 8],
            masks: &'static [([u8; 16], [u8; 16])],
        ) -> Searcher {
            let slim128 = unsafe {
                generic::verif::slim128_from_parts::<$len>(patterns, buckets, masks)
            };
            let minimum_len = slim128.minimum_len();
            let imp = Arc::new(SlimSSSE3::<$len> { slim128 });
            Searcher { imp, memory_usage: 0, minimum_len }
        }
    };
}
rebuild!(slim_ssse3_1, 1);
rebuild!(slim_ssse3_2, 2);
rebuild!(slim_ssse3_3, 3);
rebuild!(slim_ssse3_4, 4);
