"""Per-property catalogue and harness schedule (DESIGN.md section 3)."""
import random

from .core import Case, Harness, STUB_MEMCHR

UN, AN, EITHER = 0, 1, 2

F_SEARCH = [
    "automaton::try_find_fwd", "automaton::try_find_fwd_imp", "automaton::get_match",
    "Input::{span,anchored,is_done}", "Match::new",
]
F_ITER = ["automaton::FindIter::{new,search,next,handle_overlapping_empty_match}", "Input::set_start"]
F_KIND = {
    "dfa": ["dfa::DFA::{start_state,next_state,is_special,is_dead,is_match,match_len,match_pattern,pattern_len}"],
    "cnfa": ["nfa::contiguous::NFA::{start_state,next_state,is_special,is_dead,is_match,match_len,match_pattern,pattern_len}"],
    "nnfa": ["nfa::noncontiguous::NFA::{start_state,next_state,follow_transition,is_special,is_dead,is_match,match_len,match_pattern,pattern_len}"],
}


def sk_allows(case, an):
    if an == UN:
        return case.sk in ("both", "un")
    if an == AN:
        return case.sk in ("both", "an")
    return case.sk == "both"


def base_unwind(case, facts, n, extra=0):
    """Global unwind bound: every loop with a symbolic trip count in the
    templates/oracles/search loops runs at most n+1 times; loops with constant
    trip counts (pattern list, pattern bytes, match rows in the rebuild hook)
    need their own count + 1."""
    f = facts[case.name]
    return max(n + 2, len(case.pats) + 1, case.maxlen + 1, f["dfa_match_rows"] + 1) + extra


def unsat_ok_find(case):
    """Witnesses that cannot be satisfied for this case by construction."""
    out = set()
    if any(len(x) == 0 for x in case.pats):
        out |= {"no match is found", "match after skipping bytes", "one item then exhaustion"}
    return out


def getter(kind):
    return {"dfa": "dfa", "cnfa": "cnfa", "nnfa": "nnfa"}[kind]


def h_find(prop, case, facts, kind="dfa", n=6, an=UN, timeout=600, tag=""):
    name = "h_find_%s_%s_n%d_a%d%s" % (case.name, kind, n, an, tag)
    body = "    let a = <%s as Case>::%s();\n    t::find::<%s, _, %d, %d>(&a);\n    core::mem::forget(a);" % (
        case.mod, getter(kind), case.mod, n, an)
    schema = [("hay", ("bytes", n)), ("s", "usize"), ("e", "usize")] + ([("anchored", "bool")] if an == EITHER else [])
    meta = dict(template="find", kind=kind, N=n, anchored_mode=["unanchored", "anchored", "either"][an],
                symbolic=["haystack bytes (all 256 values)", "span start/end"] + (["anchored flag"] if an == EITHER else []))
    return Harness(name, case, body, base_unwind(case, facts, n), schema, meta, timeout=timeout,
                   functions=F_SEARCH + F_KIND[kind], unsat_ok=unsat_ok_find(case))


def h_iter2(prop, case, facts, kind="dfa", n=5, an=UN, timeout=900):
    name = "h_iter2_%s_%s_n%d_a%d" % (case.name, kind, n, an)
    body = "    let a = <%s as Case>::%s();\n    t::iter2::<%s, _, %d, %d>(&a);\n    core::mem::forget(a);" % (
        case.mod, getter(kind), case.mod, n, an)
    schema = [("hay", ("bytes", n)), ("s", "usize"), ("e", "usize")] + ([("anchored", "bool")] if an == EITHER else [])
    meta = dict(template="iter2", kind=kind, N=n, K=2, anchored_mode=["unanchored", "anchored", "either"][an],
                symbolic=["haystack bytes", "span start (induction variable)", "span end"],
                induction="iterator state after any next() is (m.end, Some(m.end)); two calls from a symbolic start cover the fresh and every reachable non-fresh state")
    return Harness(name, case, body, base_unwind(case, facts, n), schema, meta, timeout=timeout,
                   functions=F_SEARCH + F_ITER + F_KIND[kind], unsat_ok=unsat_ok_find(case))


# --------------------------------------------------------------------------
# catalogue

ALPHABET = [b"a", b"b", b"c", b"A", b"B", b"@", b"[", b"\x80", b"\xff"]


def seeded_cases(prefix, seed, k, mk, **kw):
    """Random pattern lists over a small alphabet with P<=4, L<=4, biased to
    produce prefix/suffix/infix relations, duplicates and the empty pattern."""
    import zlib
    rng = random.Random(seed * 7919 + zlib.crc32(prefix.encode()) % 1000)
    out = []
    for i in range(k):
        p = rng.randint(1, 4)
        pats = []
        for _ in range(p):
            r = rng.random()
            if pats and r < 0.25:
                base = rng.choice(pats)
                cut = rng.randint(0, len(base))
                pat = base[cut:] if rng.random() < 0.5 else base[:cut]
            elif pats and r < 0.35:
                pat = rng.choice(pats)
            elif r < 0.42:
                pat = b""
            else:
                ln = rng.randint(1, 4)
                pat = b"".join(rng.choice(ALPHABET[:3] if rng.random() < 0.8 else ALPHABET) for _ in range(ln))
            pats.append(pat)
        out.append(Case("%s_s%d_%d" % (prefix, seed, i), pats, mk=mk, **kw))
    return out


def lm_core(mk):
    """Curated leftmost catalogue: the shapes named in the C01 anchors."""
    p = "c01" + mk
    return [
        Case(p + "_basic", ["abc", "bc", "c", "ab"], mk=mk),
        Case(p + "_prefix1", ["ab", "abc"], mk=mk),
        Case(p + "_prefix2", ["abc", "ab"], mk=mk),
        Case(p + "_cut1", ["abcd", "bc", "cd"], mk=mk),
        Case(p + "_cut2", ["ab", "b", "bc"], mk=mk),
        Case(p + "_empty_last", ["abc", ""], mk=mk),
        Case(p + "_empty_first", ["", "abc"], mk=mk),
        Case(p + "_empty_mid", ["ab", "", "b"], mk=mk),
        Case(p + "_dup", ["ab", "ab", "b", "b"], mk=mk),
        Case(p + "_nest", ["aaa", "aa", "a"], mk=mk),
        Case(p + "_akb", ["aab", "ab", "b", "aaa"], mk=mk),
        Case(p + "_infix", ["abcd", "bc", "c", "d"], mk=mk),
    ]


def std_core():
    p = "c02"
    return [
        Case(p + "_basic", ["abc", "bc", "c", "ab"], mk="std"),
        Case(p + "_chain4", ["abcd", "bcd", "cd", "d"], mk="std"),
        Case(p + "_nest", ["aaa", "aa", "a"], mk="std"),
        Case(p + "_dup", ["ab", "ab", "b", "b"], mk="std"),
        Case(p + "_empty_first", ["", "ab"], mk="std"),
        Case(p + "_empty_last", ["abc", ""], mk="std"),
        Case(p + "_shuffle", ["a", "ab", "abc", "b", "bc", "c", "ca", "cab"], mk="std"),
        Case(p + "_cut", ["abcd", "bc", "cd"], mk="std"),
    ]


# --------------------------------------------------------------------------
# schedules: prop -> (cases, harness builder)


def schedule(prop, tier, seed):
    """Returns (cases, make_harnesses(facts) -> [Harness])."""
    quick = tier == "quick"
    if prop == "C01":
        cases = lm_core("lf") + lm_core("ll")
        if not quick:
            cases += seeded_cases("c01lf", seed, 10, "lf") + seeded_cases("c01ll", seed, 10, "ll")
        else:
            cases += seeded_cases("c01lf", seed, 2, "lf") + seeded_cases("c01ll", seed, 2, "ll")

        def mk(facts):
            hs = []
            for c in cases:
                hs.append(h_find(prop, c, facts, "dfa", n=6 if quick else 8))
                core = any(k in c.name for k in ("basic", "empty", "cut1", "prefix1", "dup"))
                if not quick or core:
                    hs.append(h_iter2(prop, c, facts, "dfa", n=4 if quick else 6))
            return hs
        return cases, mk
    if prop == "C02":
        cases = std_core() + seeded_cases("c02", seed, 2 if quick else 12, "std")

        def mk(facts):
            hs = []
            for c in cases:
                hs.append(h_find(prop, c, facts, "dfa", n=6 if quick else 8))
                core = any(k in c.name for k in ("basic", "empty", "chain4", "dup"))
                if not quick or core:
                    hs.append(h_iter2(prop, c, facts, "dfa", n=4 if quick else 6))
            return hs
        return cases, mk
    raise KeyError(prop)


COMMON_ASSUMPTIONS = [
    "bounded model checking: every verdict holds for all symbolic inputs within the stated N/P/L/K bounds and says nothing beyond them; unwinding assertions are on, so a bound that is too small fails the run instead of truncating it",
    "pattern lists are quantified by a finite catalogue (listed under coverage.catalogue), not symbolically: the automata are built natively by /repo's real builders for exactly these lists and handed to the solver as constants",
    "the automaton under symbolic execution is a loop-free reconstruction of the natively built one; vdump checks on every run that it is transition- and observation-equivalent to the original",
    "trusted: rustc MIR, Kani 0.68 MIR->goto translation and its alloc model, CBMC 6.11, CaDiCaL; x86_64 little endian; dev-profile semantics (overflow checks on)",
    "allocation failure, real threads and the inside of the memchr crate are outside every claim",
]


def assumptions(prop, tier):
    return list(COMMON_ASSUMPTIONS)
