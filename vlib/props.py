"""Per-property catalogue and harness schedule (DESIGN.md section 3)."""
import random

from .core import Case, Harness, PackedCase, STUB_MEMCHR, STUB_PF

UN, AN, EITHER = 0, 1, 2

F_SEARCH = [
    "automaton::try_find_fwd", "automaton::try_find_fwd_imp", "automaton::get_match",
    "Input::{span,anchored,is_done}", "Match::new",
]
F_ITER = ["automaton::FindIter::{new,search,next,handle_overlapping_empty_match}", "Input::set_start"]
F_KIND = {
    "dfa": ["dfa::DFA::{start_state,next_state,is_special,is_dead,is_match,match_len,match_pattern,pattern_len}"],
    "cnfa": ["nfa::contiguous::NFA::{start_state,next_state,is_special,is_dead,is_match,match_len,match_pattern,pattern_len}"],
    "nnfa": ["nfa::noncontiguous::NFA::{start_state,next_state,follow_transition,is_special,is_dead,is_match,match_len,match_pattern,pattern_len}"],
}


def sk_allows(case, an):
    if an == UN:
        return case.sk in ("both", "un")
    if an == AN:
        return case.sk in ("both", "an")
    return case.sk == "both"


def base_unwind(case, facts, n, extra=0):
    """Global unwind bound: every loop with a symbolic trip count in the
    templates/oracles/search loops runs at most n+1 times; loops with constant
    trip counts (pattern list, pattern bytes) need their own count + 1. The
    rebuild hooks are loop free."""
    f = facts[case.name]
    return max(n + 2, len(case.pats) + 1, case.maxlen + 1) + extra


def unsat_ok_find(case, an=0):
    """Witnesses that cannot be satisfied for this case by construction."""
    out = set()
    if an == 1:
        out.add("match after skipping bytes")
    if any(len(x) == 0 for x in case.pats):
        out |= {"no match is found", "match after skipping bytes", "one item then exhaustion"}
    return out


def getter(kind):
    return {"dfa": "dfa", "cnfa": "cnfa", "nnfa": "nnfa"}[kind]


def h_find(prop, case, facts, kind="dfa", n=6, an=UN, timeout=600, tag=""):
    name = "h_find_%s_%s_n%d_a%d%s" % (case.name, kind, n, an, tag)
    body = "    let a = <%s as Case>::%s();\n    t::find::<%s, _, %d, %d>(&a);\n    core::mem::forget(a);" % (
        case.mod, getter(kind), case.mod, n, an)
    schema = [("hay", ("bytes", n)), ("s", "usize"), ("e", "usize")] + ([("anchored", "bool")] if an == EITHER else [])
    meta = dict(template="find", kind=kind, N=n, anchored_mode=["unanchored", "anchored", "either"][an],
                symbolic=["haystack bytes (all 256 values)", "span start/end"] + (["anchored flag"] if an == EITHER else []))
    return Harness(name, case, body, base_unwind(case, facts, n), schema, meta, timeout=timeout,
                   functions=F_SEARCH + F_KIND[kind], unsat_ok=unsat_ok_find(case, an))


def h_iter2(prop, case, facts, kind="dfa", n=5, an=UN, timeout=900):
    name = "h_iter2_%s_%s_n%d_a%d" % (case.name, kind, n, an)
    body = "    let a = <%s as Case>::%s();\n    t::iter2::<%s, _, %d, %d>(&a);\n    core::mem::forget(a);" % (
        case.mod, getter(kind), case.mod, n, an)
    schema = [("hay", ("bytes", n)), ("s", "usize"), ("e", "usize")] + ([("anchored", "bool")] if an == EITHER else [])
    meta = dict(template="iter2", kind=kind, N=n, K=2, anchored_mode=["unanchored", "anchored", "either"][an],
                symbolic=["haystack bytes", "span start (induction variable)", "span end"],
                induction="iterator state after any next() is (m.end, Some(m.end)); two calls from a symbolic start cover the fresh and every reachable non-fresh state")
    unsat = unsat_ok_find(case, an)
    if 2 * max(1, case.minlen) > n:
        unsat = unsat | {"two items"}
    return Harness(name, case, body, base_unwind(case, facts, n), schema, meta, timeout=timeout,
                   functions=F_SEARCH + F_ITER + F_KIND[kind], unsat_ok=unsat)



F_OV = ["automaton::try_find_overlapping_fwd", "automaton::try_find_overlapping_fwd_imp",
        "automaton::next_overlapping_match", "automaton::get_match", "OverlappingState::{start,get_match}"]
AMODE = ["unanchored", "anchored", "either"]


def _body(case, kind, call):
    return "    let a = <%s as Case>::%s();\n    %s;\n    core::mem::forget(a);" % (case.mod, getter(kind), call)


def max_occurrences(case, n):
    """Upper bound on the number of occurrences in any haystack of n bytes."""
    tot = 0
    for p in case.pats:
        if len(p) <= n:
            tot += n - len(p) + 1
    return tot


def h_ov_drain(prop, case, facts, kind="dfa", n=3, an=UN, kcap=10, timeout=900, span=False):
    k = min(max_occurrences(case, n) + 1, kcap)
    if an == AN:
        # anchored: every match starts at the span start, at most one per pattern
        k = min(k, len([p for p in case.pats if len(p) <= n]) + 1)
    name = "h_ovdrain_%s_%s_n%d_k%d_a%d_s%d" % (case.name, kind, n, k, an, int(span))
    body = _body(case, kind, "t::ov_drain::<%s, _, %d, %d, %d, %s>(&a)" % (case.mod, n, k, an, "true" if span else "false"))
    schema = [("hay", ("bytes", n))] + ([("s", "usize"), ("e", "usize")] if span else []) + ([("anchored", "bool")] if an == EITHER else [])
    fixed = {"anchored": int(an == AN)}
    if not span:
        fixed.update(s=0, e=n)
    meta = dict(template="ov_drain", replay_template="overlapping", kind=kind, N=n, K=k, anchored_mode=AMODE[an],
                symbolic=["haystack bytes"] + (["span"] if span else []), fixed_inputs=fixed,
                note="haystacks with more than K-1 occurrences are outside this harness (assume)")
    # whether these two are satisfiable depends on N and the pattern list (optional witnesses)
    unsat = {"two consecutive matches with the same end", "three or more overlapping matches"}
    if any(len(x) == 0 for x in case.pats) and (not span or an == UN):
        unsat.add("no occurrence")
    return Harness(name, case, body, max(base_unwind(case, facts, n), k + 1), schema, meta, timeout=timeout,
                   functions=F_OV + F_KIND[kind], unsat_ok=unsat)


def h_ov_step(prop, case, facts, kind="dfa", n=5, timeout=900):
    name = "h_ovstep_%s_%s_n%d" % (case.name, kind, n)
    body = _body(case, kind, "t::ov_step::<%s, _, %d>(&a)" % (case.mod, n))
    schema = [("hay", ("bytes", n)), ("s", "usize"), ("e", "usize"), ("at", "usize"), ("i", "usize")]
    meta = dict(template="ov_step", replay_template="overlapping", kind=kind, N=n, anchored_mode="unanchored",
                symbolic=["haystack bytes", "span", "position of the current match state", "number of its matches already reported"],
                fixed_inputs={"anchored": 0},
                induction="pre-state = (state after hay[s..=at] is a match state, i>=1 of its matches reported); one call yields the specification's next occurrence")
    # which of the two "a further match" witnesses is satisfiable depends on the pattern list
    return Harness(name, case, body, base_unwind(case, facts, n), schema, meta, timeout=timeout,
                   functions=F_OV + F_KIND[kind], unsat_ok={"next match has the same end", "next match ends later"})


def h_ov_first(prop, case, facts, kind="dfa", n=5, timeout=900):
    name = "h_ovfirst_%s_%s_n%d" % (case.name, kind, n)
    body = _body(case, kind, "t::ov_first::<%s, _, %d>(&a)" % (case.mod, n))
    schema = [("hay", ("bytes", n)), ("s", "usize"), ("e", "usize"), ("i", "usize")]
    meta = dict(template="ov_first", replay_template="overlapping", kind=kind, N=n, anchored_mode="unanchored",
                symbolic=["haystack bytes", "span", "number of start-state matches already reported"],
                fixed_inputs={"anchored": 0})
    unsat = {"no match at all"} if any(len(x) == 0 for x in case.pats) else set()
    return Harness(name, case, body, base_unwind(case, facts, n), schema, meta, timeout=timeout,
                   functions=F_OV + F_KIND[kind], unsat_ok=unsat)


def h_ismatch(prop, case, facts, kind="dfa", n=6, an=EITHER, timeout=900):
    name = "h_ismatch_%s_%s_n%d_a%d" % (case.name, kind, n, an)
    body = _body(case, kind, "t::ismatch::<%s, _, %d, %d>(&a)" % (case.mod, n, an))
    schema = [("hay", ("bytes", n)), ("s", "usize"), ("e", "usize")] + ([("anchored", "bool")] if an == EITHER else [])
    meta = dict(template="ismatch", replay_template="is_match", kind=kind, N=n, anchored_mode=AMODE[an],
                symbolic=["haystack bytes", "span"] + (["anchored flag"] if an == EITHER else []),
                fixed_inputs={} if an == EITHER else {"anchored": int(an == AN)})
    unsat = set()
    if any(len(x) == 0 for x in case.pats):
        unsat |= {"no occurrence exists"}
    # optional witness: whether earliest and normal mode can differ depends on the pattern list
    unsat |= {"earliest stops before the normal match ends"}
    return Harness(name, case, body, base_unwind(case, facts, n), schema, meta, timeout=timeout,
                   functions=F_SEARCH + F_KIND[kind], unsat_ok=unsat)


def h_span(prop, case, facts, kind="dfa", n=6, an=EITHER, timeout=900):
    name = "h_span_%s_%s_n%d_a%d" % (case.name, kind, n, an)
    body = _body(case, kind, "t::span_rel::<%s, _, %d, %d>(&a)" % (case.mod, n, an))
    schema = [("hay", ("bytes", n)), ("other", ("bytes", n)), ("s", "usize"), ("e", "usize")] + ([("anchored", "bool")] if an == EITHER else [])
    meta = dict(template="span_rel", replay_template="span", kind=kind, N=n, anchored_mode=AMODE[an],
                symbolic=["haystack bytes", "second haystack (bytes outside the span)", "span", "anchored flag"],
                fixed_inputs={} if an == EITHER else {"anchored": int(an == AN)})
    unsat = {"no match in the span"} if any(len(x) == 0 for x in case.pats) else set()
    return Harness(name, case, body, base_unwind(case, facts, n), schema, meta, timeout=timeout,
                   functions=F_SEARCH + F_KIND[kind], unsat_ok=unsat)


def h_span_ov(prop, case, facts, kind="dfa", n=5, timeout=900):
    name = "h_spanov_%s_%s_n%d" % (case.name, kind, n)
    body = _body(case, kind, "t::span_rel_ov::<%s, _, %d>(&a)" % (case.mod, n))
    schema = [("hay", ("bytes", n)), ("other", ("bytes", n)), ("s", "usize"), ("e", "usize")]
    meta = dict(template="span_rel_ov", replay_template="span_ov", kind=kind, N=n, K=2, anchored_mode="unanchored",
                symbolic=["haystack bytes", "second haystack", "span"], fixed_inputs={"anchored": 0})
    return Harness(name, case, body, base_unwind(case, facts, n), schema, meta, timeout=timeout,
                   functions=F_OV + F_KIND[kind])


def h_recipe(prop, case, facts, kind="dfa", n=6, timeout=900):
    name = "h_recipe_%s_%s_n%d" % (case.name, kind, n)
    body = _body(case, kind, "t::recipe::<%s, _, %d>(&a)" % (case.mod, n))
    schema = [("hay", ("bytes", n)), ("n", "usize")]
    meta = dict(template="recipe", kind=kind, N=n, anchored_mode="unanchored",
                symbolic=["haystack bytes", "haystack length"])
    unsat = {"recipe finds nothing"} if any(len(x) == 0 for x in case.pats) else set()
    return Harness(name, case, body, base_unwind(case, facts, n), schema, meta, timeout=timeout,
                   functions=F_SEARCH + F_KIND[kind] + ["the search recipe from the Automaton trait documentation"],
                   unsat_ok=unsat)


def chunks(lo, hi, size):
    i = lo
    while i < hi:
        yield (i, min(i + size, hi))
        i += size


def sim_unwind(case, facts, pair, nrel):
    f = facts[case.name]
    need = [nrel + 1, len(case.pats) + 1, 4]
    if pair in ("nd", "nc"):
        # sparse list walks (bounded by the longest non-dense list of a real state; the DEAD and
        # FAIL sentinels, ids 0 and 1, carry 256-entry lists and are handled by unwindset /
        # the nnfa_dead harness) and match list walks
        mx = max([st[1] for st in f["nnfa_states"] if not st[2] and st[0] > 1 and st[1] <= 16] + [st[3] for st in f["nnfa_states"]] + [1])
        need.append(mx + 2)
        need.append(max(st[5] for st in f["nnfa_states"]) + 3)  # failure loop <= depth + 1
    if pair in ("cd", "nc"):
        need.append(max([(st[2] + 3) // 4 for st in f["cnfa_states"] if st[1] == 0] + [1]) + 2)
        need.append(max(st[5] for st in f["nnfa_states"]) + 3)
        need.append(max(st[3] for st in f["nnfa_states"]) + 2)
    return max(need)


def long_walk(f, sid, anchored):
    """Does next_state on nnfa state sid possibly walk a long (> 16 entries)
    sparse list? That is the case when the state itself, or - for an
    unanchored step - a state on its failure chain, keeps a long non-dense
    list: the DEAD sentinel (256 entries) and, with dense_depth(0), the start
    state (256 self-loop entries)."""
    st = {x[0]: x for x in f["nnfa_states"]}
    seen = 0
    while seen < 10000:
        if (not st[sid][2]) and st[sid][1] > 16:
            return True
        if anchored:
            return False
        nf = f["nnfa_fail"][sid]
        if nf == sid or sid == f["nnfa_special"][2]:
            return False
        sid = nf
        seen += 1
    return True


def h_sim(prop, case, facts, pair="cd", modes=(UN, AN), group=64, timeout=1200, dead_rows=None):
    """Simulation-step harnesses for the rows of the proposed relation(s): one
    harness per chunk of `group` rows, covering the given anchoring modes.
    For the noncontiguous NFA, dead_rows selects the rows whose step may walk
    a long sparse list (True: only those, False: only the others, None: all)."""
    f = facts[case.name]
    hs = []
    work = []  # (an, lo, hi)
    for an in modes:
        rel = f["rel_a"] if an == AN else f["rel_u"]
        rows = list(range(len(rel)))
        if dead_rows is not None and pair in ("nd", "nc"):
            isdead = [long_walk(f, rel[i][0], an == AN) for i in rows]
            rows = [i for i in rows if isdead[i] == dead_rows]
        # contiguous runs of selected rows, cut to `group`
        run = []
        for i in rows + [None]:
            if i is not None and (not run or i == run[-1] + 1) and len(run) < group:
                run.append(i)
                continue
            if run:
                work.append((an, run[0], run[-1] + 1))
            run = [i] if i is not None else []
    # pack chunks into harnesses of at most `group` rows
    packs, cur, cnt = [], [], 0
    for w in work:
        n = w[2] - w[1]
        if cur and cnt + n > group:
            packs.append(cur)
            cur, cnt = [], 0
        cur.append(w)
        cnt += n
    if cur:
        packs.append(cur)
    nrel = max(len(f["rel_a"]), len(f["rel_u"]))
    for k, pack in enumerate(packs):
        name = "h_sim%s%s_%s_p%d" % (pair, "x" if dead_rows else "", case.name, k)
        body = "\n".join("    t::sim_%s::<%s, %d, %d, %d>();" % (pair, case.mod, an, lo, hi) for (an, lo, hi) in pack)
        schema = []  # the native replay re-checks the rows exhaustively over all bytes
        fixed = {"pair": pair, "parts": ";".join("%d:%d:%d" % w for w in pack)}
        meta = dict(template="sim_" + pair, replay_template="sim", pair=pair,
                    parts=[dict(anchored=bool(an), rows=[lo, hi]) for (an, lo, hi) in pack],
                    states=sum(hi - lo for (_a, lo, hi) in pack), symbolic=["input byte (per related state)", "match list index"],
                    fixed_inputs=fixed,
                    induction="relation R proposed by the native product walk; for every pair in R and every byte the successors are in R and all observations agree; with related start states (sim_meta) this covers haystacks of every length")
        fn = {"cd": F_KIND["cnfa"] + F_KIND["dfa"], "nd": F_KIND["nnfa"] + F_KIND["dfa"], "nc": F_KIND["nnfa"] + F_KIND["cnfa"]}[pair]
        uws = {}
        if pair in ("nd", "nc") and dead_rows:
            # these rows follow failure links into the DEAD state, whose 256-entry
            # sparse list is then walked by the real follow_transition_sparse
            uws[("follow_transition_sparse", 0)] = 258
        hs.append(Harness(name, case, body, sim_unwind(case, facts, pair, nrel), schema, meta, timeout=timeout,
                          functions=fn + ["ByteClasses::get"], covers_required=False, unwindset=uws))
    return hs


def h_sim_meta(prop, case, facts, timeout=600):
    f = facts[case.name]
    name = "h_simmeta_%s" % case.name
    body = "    t::sim_meta::<%s>();" % case.mod
    rel = max(len(f["rel_a"]), len(f["rel_u"]))
    mx = max([st[1] for st in f["nnfa_states"] if not st[2] and st[0] > 1 and st[1] <= 16] + [st[3] for st in f["nnfa_states"]] + [1])
    unwind = max(rel + 1, mx + 2, len(case.pats) + 1, 8)
    meta = dict(template="sim_meta", replay_template="sim_meta", symbolic=["anchoring argument", "byte", "pattern id", "match index"])
    unsat = set() if case.sk in ("both", "an") else {"anchored start supported"}
    return Harness(name, case, body, unwind, [], meta, timeout=timeout, unsat_ok=unsat,
                   functions=["start_state/is_*/match_*/pattern_len/patterns_len/min_pattern_len/max_pattern_len/match_kind of all three automaton types"])



F_AC = ["AhoCorasick::{try_find,try_find_iter,try_find_overlapping,try_find_overlapping_iter}",
        "ahocorasick::enforce_anchored_consistency", "impl Automaton for Arc<dyn AcAutomaton>",
        "automaton::{FindIter::new,try_find_overlapping_iter gates}"]
SKN = {"both": 0, "un": 1, "an": 2}


API_NAMES = {0: "find", 1: "find_iter", 2: "find_overlapping", 3: "find_overlapping_iter", 6: "is_match"}


def ac_ctor(case, kind):
    return "aho_corasick::verif::ac::from_%s(<%s as Case>::%s(), aho_corasick::verif::ac::sk_from_u8(%d))" % (
        kind, case.mod, kind, SKN[case.sk])


def h_reject_fallible(prop, case, facts, kind, api, n=1, timeout=900):
    name = "h_rejf_%s_%s_%s" % (case.name, kind, API_NAMES[api])
    sp = kind == "dfa"
    body = "    let ac = %s;\n    t::reject_fallible::<%s, %d, %d, %s>(&ac);\n    core::mem::forget(ac);" % (
        ac_ctor(case, kind), case.mod, n, api, "true" if sp else "false")
    schema = [("hay", ("bytes", n)), ("anchored", "bool")] + ([("s", "usize"), ("e", "usize")] if sp else [])
    meta = dict(template="reject_fallible", replay_template="reject", kind=kind, N=n, api="try_" + API_NAMES[api],
                symbolic=["haystack bytes", "requested anchoring"], fixed_inputs={"api": API_NAMES[api]})
    return Harness(name, case, body, max(base_unwind(case, facts, n), 6), schema, meta, timeout=timeout, mem_gb=16,
                   functions=F_AC + F_SEARCH + F_ITER + F_OV + F_KIND[kind])


def h_iter_never_fails(prop, case, facts, kind="dfa", n=2, ov=False, timeout=900):
    name = "h_iternf_%s_%s_n%d_ov%d" % (case.name, kind, n, int(ov))
    body = _body(case, kind, "t::iter_never_fails::<%s, _, %d, %s>(&a)" % (case.mod, n, "true" if ov else "false"))
    meta = dict(template="iter_never_fails", kind=kind, N=n, K=2, iterator="overlapping" if ov else "non-overlapping",
                symbolic=["haystack bytes", "requested anchoring"])
    # the witness of the other (statically eliminated) branch is unreachable by construction
    unsat = {"a constructed non-overlapping iterator is stepped"} if ov else {"a constructed overlapping iterator is stepped"}
    if ov and (case.mk != "std" or case.sk == "an"):
        unsat.add("a constructed overlapping iterator is stepped")
    return Harness(name, case, body, base_unwind(case, facts, n), [("hay", ("bytes", n)), ("anchored", "bool")], meta,
                   timeout=timeout, functions=F_ITER + F_OV + F_SEARCH + F_KIND[kind] + ["FindOverlappingIter::next"], unsat_ok=unsat)


def h_reject_sr(prop, case, facts, kind, which, timeout=900):
    name = "h_rej%s_%s_%s" % (which, case.name, kind)
    body = "    let ac = %s;\n    t::reject_%s::<%s>(&ac);\n    core::mem::forget(ac);" % (ac_ctor(case, kind), which, case.mod)
    schema = [("hay", ("bytes", 1))] if which == "stream" else []
    meta = dict(template="reject_" + which, replay_template="reject_" + which, kind=kind,
                api="try_stream_find_iter" if which == "stream" else "try_replace_all_with_bytes")
    return Harness(name, case, body, max(base_unwind(case, facts, 1), 5), schema, meta, timeout=timeout, mem_gb=16,
                   functions=["AhoCorasick::try_stream_find_iter", "StreamChunkIter::new", "Buffer::new"] if which == "stream"
                   else ["AhoCorasick::try_replace_all_with_bytes", "Automaton::try_replace_all_with_bytes"] + F_KIND[kind],
                   covers_required=False)


def reject_possible(case, api, rej):
    """Is there a requested anchoring for which the predicate equals rej?"""
    sk, mk = case.sk, case.mk
    out = False
    for an in (False, True):
        a = (sk == "un" and an) or (sk == "an" and not an)
        b = api in (2, 3) and mk != "std"
        c = api == 3 and an
        if (a or b or c) == rej:
            out = True
    return out


def h_reject_infallible(prop, case, facts, kind, api, rej, n=1, timeout=900):
    name = "h_reji_%s_%s_%s_%s" % (case.name, kind, API_NAMES[api], "rej" if rej else "acc")
    sp = kind == "dfa"
    body = "    let ac = %s;\n    t::reject_infallible::<%s, %d, %d, %s, %s>(&ac);\n    core::mem::forget(ac);" % (
        ac_ctor(case, kind), case.mod, n, api, "true" if rej else "false", "true" if sp else "false")
    schema = [("hay", ("bytes", n)), ("anchored", "bool")] + ([("s", "usize"), ("e", "usize")] if sp else [])
    meta = dict(template="reject_infallible", replay_template="reject_inf", kind=kind, N=n, api=API_NAMES[api],
                half="rejected configurations: must panic, never return" if rej else "accepted configurations: must not panic",
                symbolic=["haystack bytes", "requested anchoring"], fixed_inputs={"api": API_NAMES[api], "expect_panic": int(rej)})
    return Harness(name, case, body, max(base_unwind(case, facts, n), 6), schema, meta, timeout=timeout, mem_gb=16,
                   functions=F_AC + ["AhoCorasick::" + API_NAMES[api]] + F_KIND[kind],
                   should_panic=rej, must_unsat={"returned normally"} if rej else (), covers_required=not rej)



F_RK = ["packed::Searcher::{find_in,find_in_slow}", "packed::rabinkarp::RabinKarp::{find_at,verify,hash,update_hash}",
        "packed::pattern::{Patterns::get,Pattern::is_prefix,is_prefix,is_equal}", "Match::new"]
F_TEDDY = ["packed::teddy::builder::Searcher::find", "SlimSSSE3::find", "teddy::generic::Slim<__m128i,N>::{find,find_one,candidate}",
           "teddy::generic::Teddy::{verify,verify64,verify_bucket}", "Mask::members*", "impl Vector for __m128i (packed::vector)",
           "Pattern::{is_prefix_raw,is_equal_raw}"]
STUB_SIMD = [("core::arch::x86_64::_mm_shuffle_epi8", "crate::stubs::pshufb_model"),
             ("core::arch::x86_64::_mm256_shuffle_epi8", "crate::stubs::pshufb256_model"),
             ("core::arch::x86_64::__cpuid_count", "crate::stubs::cpuid_stub")]


def pk_unwind(case, facts, n):
    f = facts[case.key]
    return max(n + 2, len(case.pats) + 1, case.maxlen + 1, f["max_bucket"] + 2, f["rk_hash_len"] + 2)


def pk_unwindset(case, facts):
    """Per-loop bounds for the Rabin-Karp verification path, from the dumped
    searcher: the bucket scan runs at most (longest bucket) times, the 4-byte
    chunk loop of is_equal_raw at most ceil(L/4) times, the 3-byte compare is a
    memcmp. A bound that is too small fails the unwinding assertion."""
    f = facts[case.key]
    return {("9RabinKarp7find_at", 0): f["max_bucket"] + 1,
            ("12is_equal_raw", 0): (case.maxlen + 3) // 4 + 1,
            ("=memcmp", 0): 5}


def h_pk_find(prop, case, facts, n=6, timeout=900):
    name = "h_pkfind_%s_n%d" % (case.name, n)
    body = "    t::pk_find::<%s, %d>();" % (case.mod, n)
    schema = [("hay", ("bytes", n)), ("s", "usize"), ("e", "usize")]
    meta = dict(template="pk_find", replay_template="pk_find", kind="packed:" + facts[case.key]["imp"], N=n,
                symbolic=["haystack bytes (exactly sized allocation)", "span"])
    return Harness(name, case, body, pk_unwind(case, facts, n), schema, meta, timeout=timeout, functions=F_RK,
                   stubs=STUB_SIMD if facts[case.key]["teddy_bytes"] else (), unwindset=pk_unwindset(case, facts))


def h_pk_iter2(prop, case, facts, n=5, timeout=900):
    name = "h_pkiter2_%s_n%d" % (case.name, n)
    body = "    t::pk_iter2::<%s, %d>();" % (case.mod, n)
    schema = [("hay", ("bytes", n)), ("s", "usize"), ("e", "usize")]
    meta = dict(template="pk_iter2", replay_template="pk_iter", kind="packed:" + facts[case.key]["imp"], N=n, K=2,
                symbolic=["haystack bytes", "span start (induction variable)", "span end"])
    return Harness(name, case, body, pk_unwind(case, facts, n), schema, meta, timeout=timeout,
                   functions=F_RK + ["packed::FindIter::next"], stubs=STUB_SIMD if facts[case.key]["teddy_bytes"] else (),
                   unwindset=pk_unwindset(case, facts))


def h_pk_span(prop, case, facts, n=5, timeout=900):
    name = "h_pkspan_%s_n%d" % (case.name, n)
    body = "    t::pk_span::<%s, %d>();" % (case.mod, n)
    schema = [("hay", ("bytes", n)), ("other", ("bytes", n)), ("s", "usize"), ("e", "usize")]
    meta = dict(template="pk_span", replay_template="pk_span", kind="packed:" + facts[case.key]["imp"], N=n,
                symbolic=["haystack bytes", "second haystack", "span"])
    return Harness(name, case, body, pk_unwind(case, facts, n), schema, meta, timeout=timeout, functions=F_RK,
                   stubs=STUB_SIMD if facts[case.key]["teddy_bytes"] else (), unwindset=pk_unwindset(case, facts))


def h_pk_prim(prop, lo=0, hi=13, timeout=900):
    """is_prefix / is_prefix_raw / is_equal_raw as units: needle lengths lo..hi, haystack two bytes longer
    (symbolic offset 0..2: the needle ends flush with, or 1-2 bytes before, the end of the exact object)."""
    name = "h_pkprim_%d_%d" % (lo, hi)
    body = "\n".join("    t::pk_prim%s::<%d, %d>();" % ("" if pn else "_nc", pn + 2, pn) for pn in range(lo, hi + 1))
    body += "\n    t::pk_prim_nc::<3, 5>();\n    t::pk_prim_nc::<0, 0>();"
    meta = dict(template="pk_prim", replay_template="pk_prim", needle_lengths=[lo, hi],
                symbolic=["haystack bytes (exactly sized object)", "needle bytes (exactly sized object)", "offset"],
                note="every packed variant (Rabin-Karp, slim/fat Teddy, 128/256 bit) confirms candidates through these primitives")
    return Harness(name, None, body, hi + 3, [], meta, timeout=timeout,
                   functions=["packed::pattern::{is_prefix,is_equal_raw}", "packed::pattern::Pattern::is_prefix_raw"])


def h_pk_teddy(prop, case, facts, length, off, w, pad, timeout=2400, mem_gb=20, end=None):
    f = facts[case.key]
    name = "h_pkteddy_%s_l%d_o%d_w%d_p%02x" % (case.name, length, off, w, pad)
    body = "    t::pk_teddy::<%s, %d, %d, %d, %d>();" % (case.mod, length, off, w, pad)
    if end is not None:
        # span 0..end inside a `length`-byte haystack (C10)
        name += "_e%d" % end
        body = "    t::pk_teddy_end::<%s, %d, %d, %d, %d, %d>();" % (case.mod, length, end, off, w, pad)
    schema = [("w", ("bytes", w))]
    meta = dict(template="pk_teddy" if end is None else "pk_teddy_end", replay_template="pk_teddy", kind="packed:" + f["imp"], LEN=length, OFF=off, W=w,
                PAD=pad, fixed_inputs={"len": length, "off": off, "pad": pad, "s": 0, "end": length if end is None else end},
                symbolic=["%d window bytes at offset %d of a %d-byte exactly sized haystack" % (w, off, length), "span start <= window offset"],
                note="bytes outside the window are the fixed pad byte: arbitrary multi-match contents of a full vector are outside this harness")
    # loops: window copy w, oracle start loop length+1 ...
    unwind = max(length + 2, len(case.pats) + 1, case.maxlen + 1, 18)
    uws = pk_unwindset(case, facts)
    if f.get("teddy_variant"):
        meta["call"] = ("direct call of the concrete 256-bit implementation (body of teddy Searcher::find with the trait "
                        "object replaced by the concrete value): Kani 0.68 mis-models Arc<dyn Trait> around a 32-byte aligned payload")
        # direct call of the concrete 256-bit implementation: no Rabin-Karp code in the harness
        uws = {k: v for k, v in uws.items() if "RabinKarp" not in k[0]}
    # Teddy verification: one candidate bit per (window byte, non-empty bucket) at most - the pad
    # byte shares no fingerprint with a pattern (checked below) - and a bucket holds few patterns
    pad_lo, pad_hi = pad & 0xF, pad >> 4
    for pt in case.pats:
        for bt in pt[:max(1, f["teddy_bytes"])]:
            assert not (bt & 0xF == pad_lo and bt >> 4 == pad_hi), "pad byte occurs in a fingerprint"
    uws[("8verify64", 0)] = w * max(1, f["teddy_nonempty_buckets"]) + 1
    uws[("13verify_bucket", 0)] = f["max_teddy_bucket"] + 1
    if f.get("teddy_variant"):
        uws[("_mm256_shuffle_epi8", None)] = 34  # the lane model of vpshufb: 32 lanes
    return Harness(name, case, body, unwind, schema, meta, timeout=timeout, mem_gb=mem_gb,
                   functions=F_TEDDY + F_RK, stubs=STUB_SIMD, unwindset=uws)



F_STREAM = ["automaton::StreamChunkIter::{next,get_match_chunk,get_non_match_chunk,get_pre_roll_non_match_chunk,get_eof_non_match_chunk,get_match}",
            "util::buffer::Buffer::{buffer,min_buffer_len,free_buffer,fill,roll}", "automaton::get_match"]


def stream_unwindset(case, t, cap):
    """Per-loop bounds for the stream code (a too-small bound fails the
    unwinding assertion): within one next() the outer loop runs once per
    refill that yields no chunk plus the iteration that returns; the scan loop
    at most cap times; Buffer::fill until min bytes are buffered (every read
    returns >= 1 byte); the reader's copy loop at most cap bytes."""
    mn = case.maxlen
    return {("15StreamChunkIter", None): cap + 2,
            ("6Buffer", None): mn + 2,
            ("9SymReader", None): cap + 1}


def h_stream_step(prop, case, facts, kind="dfa", t=6, spare=1, fault=False, timeout=1500):
    cap = case.maxlen + spare
    name = "h_sstep_%s_%s_t%d_cap%d_f%d" % (case.name, kind, t, cap, int(fault))
    body = _body(case, kind, "t::stream_step::<%s, _, %d, %d, %s>(&a)" % (case.mod, t, cap, "true" if fault else "false"))
    schema = [("hay", ("bytes", t))]
    meta = dict(template="stream_step", replay_template="stream", kind=kind, T=t, cap=cap, fault=fault,
                fixed_inputs={"spare": spare, "fault": int(fault)},
                symbolic=["stream bytes", "iterator pre-state under Inv (reader offset, buffer end, buffer_pos, buffer_reported_pos, end of last match)",
                          "size of every read() (the schedule)"] + (["index of the failing read() call"] if fault else []),
                induction="one next() from every state satisfying Inv yields the next piece of the specification's chunk sequence and re-establishes Inv; the initial state satisfies Inv trivially, so the claim covers streams of any length over this automaton, buffer capacity cap and pattern list",
                environment_stubs=["impl Read returning a symbolic count in 1..=min(remaining, buf.len()), 0 only at end of data"])
    unwind = max(base_unwind(case, facts, t), cap + 2, t + 2)
    unsat = set() if fault else {"an error after some bytes were read in the same call"}
    if t < cap:
        # a stream that fits into the buffer never rolls it
        unsat |= {"a match after the buffer rolled", "a match in the call that rolled the buffer"}
    if t < case.minlen:
        unsat |= {"a match chunk"}
    return Harness(name, case, body, unwind, schema, meta, timeout=timeout, mem_gb=24, functions=F_STREAM + F_KIND[kind],
                   unsat_ok=unsat, unwindset=stream_unwindset(case, t, cap))


def h_stream_run(prop, case, facts, kind="dfa", t=3, timeout=1500):
    k = t + 1
    name = "h_srun_%s_%s_t%d" % (case.name, kind, t)
    body = _body(case, kind, "t::stream_run::<%s, _, %d, %d>(&a)" % (case.mod, t, k))
    meta = dict(template="stream_run", replay_template="stream", kind=kind, T=t, K=k, cap=case.maxlen + 1, fixed_inputs={"spare": 1, "fault": 0},
                symbolic=["stream bytes", "size of every read()"], note="complete run through the real constructor (initial state)")
    unwind = max(base_unwind(case, facts, t), case.maxlen + 3, t + 2, k + 1)
    return Harness(name, case, body, unwind, [("hay", ("bytes", t))], meta, timeout=timeout, mem_gb=24, unwindset=stream_unwindset(case, t, case.maxlen + 1),
                   functions=["Automaton::try_stream_find_iter", "StreamChunkIter::new", "StreamFindIter::next", "Buffer::new"] + F_STREAM + F_KIND[kind])


def h_stream_replace(prop, case, facts, kind="dfa", t=3, wfault=False, timeout=1800, spare=1):
    w = 2 * t + 2
    name = "h_srepl_%s_%s_t%d_wf%d%s" % (case.name, kind, t, int(wfault), "" if spare == 1 else "_sp%d" % spare)
    body = _body(case, kind, "t::stream_replace::<%s, _, %d, %d, %s, %d>(&a)" % (case.mod, t, w, "true" if wfault else "false", spare))
    meta = dict(template="stream_replace", replay_template="stream", kind=kind, T=t, cap=case.maxlen + spare, writer_fault=wfault,
                fixed_inputs={"spare": spare, "fault": int(wfault)},
                symbolic=["stream bytes", "size of every read()"] + (["index of the failing write() call"] if wfault else []),
                environment_stubs=["impl Read with symbolic read sizes", "impl Write appending to a fixed array" + (", failing at a symbolic call" if wfault else "")])
    unwind = max(base_unwind(case, facts, t), case.maxlen + 3, w + 2)
    unsat = set() if wfault else {"a writer failure after some output"}
    if t < 2:
        unsat.add("a replacement changes the length")
    return Harness(name, case, body, unwind, [("hay", ("bytes", t))], meta, timeout=timeout, mem_gb=24, covers_required=True, unsat_ok=unsat,
                   unwindset=stream_unwindset(case, t, case.maxlen + spare),
                   functions=["Automaton::try_stream_replace_all_with", "StreamChunkIter::new"] + F_STREAM + F_KIND[kind])



F_REPLACE = ["Automaton::try_replace_all_with_bytes", "Automaton::try_replace_all_with", "Automaton::try_find_iter"] + F_ITER


def h_replace_bytes(prop, case, facts, kind="dfa", n=2, timeout=1800):
    w = 2 * n + 4
    name = "h_replb_%s_%s_n%d" % (case.name, kind, n)
    body = _body(case, kind, "t::replace_bytes::<%s, _, %d, %d>(&a)" % (case.mod, n, w))
    schema = [("hay", ("bytes", n)), ("stop", "usize")]
    meta = dict(template="replace_bytes", kind=kind, N=n, symbolic=["haystack bytes", "call at which the closure returns false"])
    unsat = set()
    if n < 2 * max(1, case.minlen) and case.minlen > 0:
        unsat.add("two replacements")
    return Harness(name, case, body, max(base_unwind(case, facts, n), 5), schema, meta, timeout=timeout, mem_gb=24,
                   functions=F_REPLACE + F_SEARCH + F_KIND[kind], unsat_ok=unsat,
                   stubs=[("alloc::vec::Vec::<T, A>::append_elements", "crate::stubs::append_elements_nogrow")],
                   unwindset={("13replace_bytes", None): w + 1})


def h_replace_str(prop, case, facts, kind="dfa", n=3, timeout=1800):
    w = 2 * n + 4
    name = "h_repls_%s_%s_n%d" % (case.name, kind, n)
    body = _body(case, kind, "t::replace_str::<%s, _, %d, %d>(&a)" % (case.mod, n, w))
    schema = [("hay", ("bytes", n)), ("n", "usize")]
    meta = dict(template="replace_str", kind=kind, N=n, symbolic=["haystack bytes (assumed valid UTF-8)", "haystack length"])
    # global bound from the haystack length; only the harness's own output-comparison loops run to W
    return Harness(name, case, body, max(base_unwind(case, facts, n), 5), schema, meta, timeout=timeout, mem_gb=24,
                   functions=F_REPLACE + F_SEARCH + F_KIND[kind] + ["str::is_char_boundary"], covers_required=False,
                   stubs=[("alloc::vec::Vec::<T, A>::extend_from_slice", "crate::stubs::extend_from_slice_nogrow")],
                   unwindset={("11replace_str", None): w + 1, ("19run_utf8_validation", None): n + 2})


def h_replace_script(prop, which, n, timeout=1800, mem_gb=24):
    """Compositional C12 harness: real replace driver + real FindIter over an abstract (symbolic) searcher."""
    # output bound: every offset 0..=N can carry an (empty) match: N+1 tags of up to two bytes, plus N bytes
    w = 3 * n + 3
    name = "h_repl%s_script_n%d" % (which, n)
    body = "    t::replace_%s_script::<%d, %d>();" % ("bytes" if which == "b" else "str", n, w)
    nt = n + 1
    schema = []
    for i in range(nt):
        schema += [("present%d" % i, "bool"), ("pid%d" % i, "u8"), ("ms%d" % i, "u8"), ("me%d" % i, "u8")]
    schema += [("std", "bool"), ("hay", ("bytes", n)), ("stop", "usize")]
    meta = dict(template="replace_%s_script" % ("bytes" if which == "b" else "str"), replay_template="replace_script", N=n,
                fixed_inputs={"which": which, "n": n},
                symbolic=["the search function: for every start offset, no match or any match (pattern 0/1, start >= offset, end <= N)",
                          "haystack bytes" + (" (valid UTF-8 assumed)" if which == "s" else ""), "call at which the closure returns false"],
                composition="the replace routine reaches the automaton only through the non-overlapping iterator, which reaches it only through try_find; with C01/C02 (try_find is the defined search) the splice equality transfers to every pattern list")
    stub = ("alloc::vec::Vec::<T, A>::append_elements", "crate::stubs::append_elements_nogrow") if which == "b" else \
           ("alloc::vec::Vec::<T, A>::extend_from_slice", "crate::stubs::extend_from_slice_nogrow")
    uws = {("replace_%s_script" % ("bytes" if which == "b" else "str"), None): w + 1}
    if which == "s":
        uws[("19run_utf8_validation", None)] = n + 2
    return Harness(name, None, body, n + 3, schema, meta, timeout=timeout, mem_gb=mem_gb,
                   functions=F_REPLACE + ["abstract searcher (hook): Automaton::try_find answered from a symbolic table"] + (["str::is_char_boundary"] if which == "s" else []),
                   stubs=[stub], unwindset=uws, covers_required=True,
                   unsat_ok={"only skipped matches"} if n < 3 else set())


def h_purity(prop, case, facts, kind="dfa", n=4, timeout=1200):
    name = "h_pure_%s_%s_n%d" % (case.name, kind, n)
    body = _body(case, kind, "t::purity::<%s, _, %d>(&a)" % (case.mod, n))
    schema = [("h1", ("bytes", n)), ("h2", ("bytes", n)), ("s1", "usize"), ("e1", "usize"), ("s2", "usize"), ("e2", "usize"),
              ("a1", "bool"), ("a2", "bool")]
    meta = dict(template="purity", kind=kind, N=n, symbolic=["two haystacks", "two spans", "two anchoring modes"],
                note="sequential histories only; concurrent schedules are outside the claim (Kani has no thread model)")
    f = facts[case.name]
    unwind = max(base_unwind(case, facts, n), f["dfa_match_rows"] + 2)
    unsat = {"a rejected request"} if (case.sk == "both" or kind != "dfa") else set()
    return Harness(name, case, body, unwind, schema, meta, timeout=timeout, functions=F_SEARCH + F_OV + F_KIND[kind] + ["Clone for the automaton"],
                   unsat_ok=unsat)


def h_work(prop, case, facts, kind="dfa", n=6, an=EITHER, timeout=1200, stubs=()):
    name = "h_work_%s_%s_n%d_a%d" % (case.name, kind, n, an)
    body = _body(case, kind, "t::work::<%s, _, %d, %d, %s>(&a)" % (case.mod, n, an, "true" if kind == "dfa" else "false"))
    schema = [("hay", ("bytes", n)), ("s", "usize"), ("e", "usize")] + ([("anchored", "bool")] if an == EITHER else [])
    meta = dict(template="work", kind=kind, N=n, anchored_mode=AMODE[an], symbolic=["haystack bytes", "span", "anchored flag"],
                fixed_inputs=dict({} if an == EITHER else {"anchored": int(an == AN)}, pfcode=facts[case.name]["pf_code"]),
                hook="counters in the search loops' next_state call sites and the NFAs' failure loops")
    f = facts[case.name]
    unwind = base_unwind(case, facts, n)
    if kind != "dfa":
        mx = max([st[1] for st in f["nnfa_states"] if not st[2] and st[0] > 1] + [st[3] for st in f["nnfa_states"]] + [1])
        unwind = max(unwind, mx + 2, max(st[5] for st in f["nnfa_states"]) + 3,
                     max([(st[2] + 3) // 4 for st in f["cnfa_states"] if st[1] == 0] + [1]) + 2)
    unsat = {"a failure link is followed"} if kind == "dfa" else set()
    if not case.pf:
        unsat.add("the prefilter scanned something")
    if any(len(x) == 0 for x in case.pats) and case.mk == "std":
        unsat.add("every byte of the span is consumed")
    h = Harness(name, case, body, unwind, schema, meta, timeout=timeout, functions=F_SEARCH + F_KIND[kind] + ["verif::count hooks"],
                unsat_ok=unsat, stubs=stubs)
    if kind == "dfa":
        pass
    return h


def h_work_ov(prop, case, facts, kind="dfa", n=6, timeout=1200, stubs=()):
    name = "h_workov_%s_%s_n%d" % (case.name, kind, n)
    body = _body(case, kind, "t::work_ov::<%s, _, %d, %s>(&a)" % (case.mod, n, "true" if kind == "dfa" else "false"))
    schema = [("hay", ("bytes", n)), ("s", "usize"), ("e", "usize")]
    meta = dict(template="work_ov", replay_template="work", kind=kind, N=n, anchored_mode="unanchored",
                symbolic=["haystack bytes", "span"], fixed_inputs={"anchored": 0, "ov": 1, "pfcode": facts[case.name]["pf_code"]},
                hook="counters in the overlapping search loop; memchr contract model: scan order, scan range, bytes examined")
    unsat = set() if case.pf else {"the prefilter scanned and nothing matched"}
    return Harness(name, case, body, base_unwind(case, facts, n), schema, meta, timeout=timeout,
                   functions=F_OV + F_KIND[kind] + ["verif::count hooks", "Prefilter::find_in"], unsat_ok=unsat, stubs=stubs)


def h_fail_depth(prop, case, facts, timeout=600):
    f = facts[case.name]
    nst = len(f["nnfa_states"])
    name = "h_faildepth_%s" % case.name
    body = "    t::fail_depth::<%s, 0, %d>();" % (case.mod, nst)
    meta = dict(template="fail_depth", states=nst, symbolic=["state index"],
                note="structural lemma: every failure link of the dumped noncontiguous NFA points to a strictly shallower state")
    return Harness(name, case, body, max(f["dfa_match_rows"] + 1, len(case.pats) + 1, 4), [("i", "usize")], meta, timeout=timeout,
                   functions=["noncontiguous::State::{fail,depth} of every state"], covers_required=False)



def h_ac_ismatch(prop, case, facts, kind="dfa", n=4, timeout=1200):
    name = "h_acismatch_%s_%s_n%d" % (case.name, kind, n)
    body = "    let ac = %s;\n    t::ac_ismatch::<%s, %d>(&ac);\n    core::mem::forget(ac);" % (ac_ctor(case, kind), case.mod, n)
    schema = [("hay", ("bytes", n)), ("s", "usize"), ("e", "usize"), ("anchored", "bool")]
    meta = dict(template="ac_ismatch", replay_template="ac_ismatch", kind=kind, N=n, symbolic=["haystack bytes", "span", "anchored flag"])
    unsat = {"is_match is false"} if any(len(x) == 0 for x in case.pats) and case.sk != "both" else set()
    if any(len(x) == 0 for x in case.pats):
        unsat.add("is_match is false")
    return Harness(name, case, body, max(base_unwind(case, facts, n), 8), schema, meta, timeout=timeout,
                   functions=["AhoCorasick::{is_match,find,try_find}"] + F_AC + F_SEARCH + F_KIND[kind], unsat_ok=unsat)


def h_ac_iter(prop, case, facts, kind="dfa", n=4, timeout=1500, which="iter"):
    name = "h_ac%s_%s_%s_n%d" % (which, case.name, kind, n)
    body = "    let ac = %s;\n    t::ac_%s::<%s, %d>(&ac);\n    core::mem::forget(ac);" % (ac_ctor(case, kind), which, case.mod, n)
    schema = [("hay", ("bytes", n)), ("s", "usize"), ("e", "usize")]
    meta = dict(template="ac_" + which, replay_template="iter2" if which == "iter" else "overlapping", kind=kind, N=n,
                symbolic=["haystack bytes", "span"], fixed_inputs={"anchored": 0})
    return Harness(name, case, body, max(base_unwind(case, facts, n), 8), schema, meta, timeout=timeout,
                   functions=["AhoCorasick::{find_iter,find_overlapping}"] + F_AC + F_SEARCH + F_ITER + F_OV + F_KIND[kind])



def h_ac_meta(prop, case, facts, kind="dfa", timeout=900):
    name = "h_acmeta_%s_%s" % (case.name, kind)
    body = "    let ac = %s;\n    let a = <%s as Case>::%s();\n    t::ac_meta::<%s, _>(&ac, &a);\n    core::mem::forget(ac);\n    core::mem::forget(a);" % (
        ac_ctor(case, kind), case.mod, kind, case.mod)
    meta = dict(template="ac_meta", replay_template="ac_meta", kind=kind,
                symbolic=["pattern id", "anchoring", "two input bytes", "match index"])
    f = facts[case.name]
    mx = max([st[1] for st in f["nnfa_states"] if not st[2] and st[0] > 1 and st[1] <= 16] + [st[3] for st in f["nnfa_states"]] + [1])
    unwind = max(len(case.pats) + 1, case.maxlen + 2, mx + 2, 8)
    unsat = set()
    return Harness(name, case, body, unwind, [], meta, timeout=timeout, covers_required=False,
                   functions=["AhoCorasick::{patterns_len,min_pattern_len,max_pattern_len,match_kind,start_kind}",
                              "impl Automaton for Arc<dyn AcAutomaton> (every forwarder)"] + F_KIND[kind], unsat_ok=unsat)


def h_ac_stream_init(prop, case, facts, kind="dfa", timeout=900):
    name = "h_acsinit_%s_%s" % (case.name, kind)
    body = "    let ac = %s;\n    t::ac_stream_init::<%s, 1>(&ac);\n    core::mem::forget(ac);" % (ac_ctor(case, kind), case.mod)
    meta = dict(template="ac_stream_init", replay_template="ac_meta", kind=kind, spare=1,
                note="base case of the stream induction through the top-level searcher: buffer minimum via the Arc<dyn> forwarder")
    return Harness(name, case, body, max(base_unwind(case, facts, 2), 6), [], meta, timeout=timeout, covers_required=False,
                   functions=["AhoCorasick::try_stream_find_iter", "StreamChunkIter::new", "Buffer::new",
                              "<Arc<dyn AcAutomaton> as Automaton>::max_pattern_len"])


def h_std_struct(prop, case, facts, group=64, timeout=900):
    """Textbook-automaton check of the standard-semantics DFA, all states."""
    f = facts[case.name]
    rel = f["rel_u"]
    hs = []
    for (lo, hi) in chunks(0, len(rel), group):
        name = "h_stdstruct_%s_r%d_%d" % (case.name, lo, hi)
        body = "    t::std_struct::<%s, %d, %d>();" % (case.mod, lo, hi)
        unwind = max(len(rel) + 1, len(case.pats) + 1, case.maxlen + 3, hi - lo + 1)
        meta = dict(template="std_struct", replay_template="std_struct", kind="dfa", states=hi - lo,
                    symbolic=["input byte (per state)", "match list index"], fixed_inputs={"lo": lo, "hi": hi},
                    induction="every DFA state is spelled by its breadth-first witness string w; for every state and every byte the successor is the state spelled by the longest suffix of w.b that is a prefix of a pattern, and the state's match list is the ordered list of patterns that are suffixes of w: the DFA is the textbook Aho-Corasick automaton of the pattern list, hence the standard/overlapping definitions hold for haystacks of every length")
        schema = []
        for i in range(lo, hi):
            schema += [("k%d" % i, "usize?"), ("b%d" % i, "u8")]
        hs.append(Harness(name, case, body, unwind, [], meta, timeout=timeout, covers_required=False,
                          functions=F_KIND["dfa"] + ["ByteClasses::get"]))
    return hs


# --------------------------------------------------------------------------
# catalogue

ALPHABET = [b"a", b"b", b"c", b"A", b"B", b"@", b"[", b"\x80", b"\xff"]


def seeded_cases(prefix, seed, k, mk, **kw):
    """Random pattern lists over a small alphabet with P<=4, L<=4, biased to
    produce prefix/suffix/infix relations, duplicates and the empty pattern."""
    import zlib
    rng = random.Random(seed * 7919 + zlib.crc32(prefix.encode()) % 1000)
    out = []
    for i in range(k):
        # per-case permutation of the core letters, so that builder steps that
        # depend on byte order see every relative order
        core = ALPHABET[:3][:]
        rng.shuffle(core)
        alpha = core + ALPHABET[3:]
        p = rng.randint(1, 4)
        pats = []
        for _ in range(p):
            r = rng.random()
            if pats and r < 0.25:
                base = rng.choice(pats)
                cut = rng.randint(0, len(base))
                pat = base[cut:] if rng.random() < 0.5 else base[:cut]
            elif pats and r < 0.35:
                pat = rng.choice(pats)
            elif r < 0.42:
                pat = b""
            else:
                ln = rng.randint(1, 4) if rng.random() < 0.85 else 5
                pat = b"".join((core[min(int(rng.random() ** 2 * 3), 2)] if rng.random() < 0.8 else rng.choice(alpha)) for _ in range(ln))
            pats.append(pat)
        out.append(Case("%s_s%d_%d" % (prefix, seed, i), pats, mk=mk, **kw))
    return out


def lm_core(mk):
    """Curated leftmost catalogue: the shapes named in the C01 anchors."""
    p = "c01" + mk
    return [
        Case(p + "_basic", ["abc", "bc", "c", "ab"], mk=mk),
        Case(p + "_prefix1", ["ab", "abc"], mk=mk),
        Case(p + "_prefix2", ["abc", "ab"], mk=mk),
        Case(p + "_cut1", ["abcd", "bc", "cd"], mk=mk),
        Case(p + "_cut2", ["ab", "b", "bc"], mk=mk),
        Case(p + "_empty_last", ["abc", ""], mk=mk),
        Case(p + "_empty_first", ["", "abc"], mk=mk),
        Case(p + "_empty_mid", ["ab", "", "b"], mk=mk),
        Case(p + "_dup", ["ab", "ab", "b", "b"], mk=mk),
        Case(p + "_nest", ["aaa", "aa", "a"], mk=mk),
        Case(p + "_akb", ["aab", "ab", "b", "aaa"], mk=mk),
        Case(p + "_infix", ["abcd", "bc", "c", "d"], mk=mk),
        # two-step failure chain through a state of a subtree that sorts before
        # the long pattern's first byte (order of the failure-link traversal)
        Case(p + "_chain2", ["cabx", "abq", "bd"], mk=mk),
        Case(p + "_revchain", ["dcba", "cba", "ba", "a"], mk=mk),
        # a depth-4 state whose failure link is computed through the failure
        # link of a depth-2 state in a subtree that sorts earlier (only a
        # 5-byte pattern makes that link observable under leftmost semantics)
        Case(p + "_deepchain", ["zabcx", "abq", "bcd"], mk=mk),
        Case(p + "_deepchain2", ["abcdx", "bcq", "cde", "zz"], mk=mk),
        # a failure link that needs three fall-backs (self-overlapping prefix)
        Case(p + "_selfoverlap", ["aaab", "b"], mk=mk),
        Case(p + "_selfoverlap2", ["ababc", "c", "bab"], mk=mk),
        # 0xFF / 0x00 as pattern bytes (last/first byte class)
        Case(p + "_hi", [b"ab", b"\xff", b"\x00b"], mk=mk),
    ]


def std_core():
    p = "c02"
    return [
        Case(p + "_basic", ["abc", "bc", "c", "ab"], mk="std"),
        Case(p + "_chain4", ["abcd", "bcd", "cd", "d"], mk="std"),
        Case(p + "_nest", ["aaa", "aa", "a"], mk="std"),
        Case(p + "_dup", ["ab", "ab", "b", "b"], mk="std"),
        Case(p + "_empty_first", ["", "ab"], mk="std"),
        Case(p + "_empty_last", ["abc", ""], mk="std"),
        Case(p + "_shuffle", ["a", "ab", "abc", "b", "bc", "c", "ca", "cab"], mk="std"),
        Case(p + "_cut", ["abcd", "bc", "cd"], mk="std"),
        Case(p + "_chain2", ["cabx", "abq", "bd"], mk="std"),
        Case(p + "_revchain", ["dcba", "cba", "ba", "a"], mk="std"),
        Case(p + "_deepchain", ["zabc", "abq", "bc"], mk="std"),
        Case(p + "_deepchain5", ["zabcx", "abq", "bcd"], mk="std"),
        Case(p + "_selfoverlap", ["aaab", "b"], mk="std"),
        Case(p + "_selfoverlap2", ["ababc", "c", "bab"], mk="std"),
        Case(p + "_hi", [b"ab", b"\xff", b"\x00b"], mk="std"),
    ]


# --------------------------------------------------------------------------
# schedules: prop -> (cases, harness builder)


def schedule(prop, tier, seed):
    """Returns (cases, make_harnesses(facts) -> [Harness]).

    The thorough tier is the quick tier's harness set (whose budgets are validated on this image on every
    change) plus the deeper exploration. A deep harness - one that is not part of the quick set - is marked
    optional (core.Harness.optional): if it runs out of time or memory it is reported as "not decided"
    (stdout + evidence) and contributes nothing to the claim instead of turning the whole check inconclusive;
    a counterexample from it is replayed and reported like any other."""
    qcases, qmk = _schedule(prop, "quick", seed)
    if tier == "quick":
        return qcases, qmk
    tcases, tmk = _schedule(prop, "thorough", seed)
    names = set(c.name for c in qcases)
    qline = {c.name: c.line() for c in qcases}
    for c in tcases:
        assert c.name not in qline or qline[c.name] == c.line(), "case %s differs between the tiers" % c.name
    cases = list(qcases) + [c for c in tcases if c.name not in names]

    def mk2(facts):
        hs = list(qmk(facts))
        have = set(h.name for h in hs)
        for h in tmk(facts):
            if h.name in have:
                continue
            have.add(h.name)
            h.optional = True
            hs.append(h)
        return hs
    return cases, mk2


def _schedule(prop, tier, seed):
    quick = tier == "quick"
    if prop == "C01":
        cases = lm_core("lf") + lm_core("ll")
        # the same definition on a case-insensitive build (two links per letter child in the trie: seeded C01c)
        cases += [Case("c01lf_ci_infix", ["abcd", "bce", "bc"], mk="lf", ci=True), Case("c01ll_ci_infix", ["abcd", "bce", "bc"], mk="ll", ci=True)]
        if not quick:
            cases += seeded_cases("c01lf", seed, 10, "lf") + seeded_cases("c01ll", seed, 10, "ll")
        else:
            cases += seeded_cases("c01lf", seed, 5, "lf") + seeded_cases("c01ll", seed, 5, "ll")

        def mk(facts):
            hs = []
            for c in cases:
                hs.append(h_find(prop, c, facts, "dfa", n=6 if quick else 8))
                core = any(k in c.name for k in ("basic", "empty", "cut1", "prefix1", "dup"))
                if not quick or core:
                    hs.append(h_iter2(prop, c, facts, "dfa", n=4 if quick else 6))
            return hs
        return cases, mk
    if prop == "C02":
        cases = std_core() + seeded_cases("c02", seed, 6 if quick else 12, "std")

        def mk(facts):
            hs = []
            for c in cases:
                hs.append(h_find(prop, c, facts, "dfa", n=6 if quick else 8))
                core = any(k in c.name for k in ("basic", "empty", "chain4", "dup"))
                if not quick or core:
                    hs.append(h_iter2(prop, c, facts, "dfa", n=4 if quick else 6))
                if c.sk in ("both", "un"):
                    hs += h_std_struct(prop, c, facts)
            return hs
        return cases, mk
    if prop == "C03":
        cases = [Case(c.name.replace("c02", "c03"), c.pats, mk="std") for c in std_core()]
        cases += seeded_cases("c03", seed, 6 if quick else 10, "std")
        # case-insensitive build with the empty pattern (start-state matches copied once per child: seeded C03c)
        cases.append(Case("c03_ci_empty", ["", "aB"], mk="std", ci=True))

        def mk(facts):
            hs = []
            for c in cases:
                core = any(k in c.name for k in ("basic", "empty", "dup", "chain4"))
                # the automaton itself: textbook check, all states, every case
                hs += h_std_struct(prop, c, facts)
                # the resumable search loop on top of it
                if not quick or core:
                    hs.append(h_ov_step(prop, c, facts, "dfa", n=4 if quick else 6))
                if not quick or any(k in c.name for k in ("basic", "empty_first")):
                    hs.append(h_ov_first(prop, c, facts, "dfa", n=4 if quick else 6))
                    # quick: N=2 (K <= 7 calls); the N=3/N=4 drains need 10-20 GB and minutes
                    h = h_ov_drain(prop, c, facts, "dfa", n=2 if quick else 3, kcap=10, span=not quick,
                                   timeout=900 if quick else 2400)
                    h.mem_gb = 16 if quick else 28
                    hs.append(h)
                    if not quick:
                        h = h_ov_drain(prop, c, facts, "dfa", n=4, kcap=14, span=False, timeout=3000)
                        h.mem_gb = 28
                        hs.append(h)
            return hs
        return cases, mk
    if prop == "C09":
        fams = [("suffix3", ["abc", "bc", "c"]), ("suffix4", ["xabc", "abc", "c"]), ("basic", ["abc", "bc", "c", "ab"]),
                ("inherit", ["abcd", "bc"]), ("inherit3", ["abc", "b"]), ("empty", ["ab", "", "b"]), ("dup", ["ab", "ab", "b"])]
        cases = []
        for mkk in ("std", "lf", "ll"):
            for (nm, pats) in fams:
                if quick and mkk == "ll" and nm not in ("suffix3", "empty"):
                    continue
                if quick and mkk != "std" and nm == "inherit3":
                    continue
                cases.append(Case("c09%s_%s" % (mkk, nm), pats, mk=mkk, sk="both"))
        cases.append(Case("c09std_suffix3_an", ["abc", "bc", "c"], mk="std", sk="an"))
        cases.append(Case("c09lf_suffix3_an", ["abc", "bc", "c"], mk="lf", sk="an"))
        if not quick:
            for mkk in ("std", "lf", "ll"):
                cases += seeded_cases("c09" + mkk, seed, 6, mkk)

        def mk(facts):
            hs = []
            for c in cases:
                hs.append(h_find(prop, c, facts, "dfa", n=6 if quick else 8, an=AN))
                core = any(k in c.name for k in ("suffix3", "empty", "inherit", "dup"))
                if not quick or core:
                    hs.append(h_iter2(prop, c, facts, "dfa", n=4 if quick else 6, an=AN))
                if c.mk == "std" and (not quick or core):
                    hs.append(h_ov_drain(prop, c, facts, "dfa", n=3 if quick else 4, an=AN, kcap=8, span=not quick))
            return hs
        return cases, mk
    if prop == "C10":
        cases = [Case("c10lf_basic", ["abc", "bc", "c", "ab"], mk="lf"), Case("c10ll_basic", ["abc", "bc", "c", "ab"], mk="ll"),
                 Case("c10std_basic", ["abc", "bc", "c", "ab"], mk="std"), Case("c10lf_empty", ["ab", "", "b"], mk="lf"),
                 Case("c10std_empty", ["", "ab"], mk="std"), Case("c10lf_long", ["abcd", "bcd", "d"], mk="lf"),
                 Case("c10std_nobc", ["abc", "b"], mk="std", bc=False)]
        # prefilter-accelerated searches honour the span as well (memmem: seeded change C10a; rare bytes)
        pf_cases = [Case("c10std_mm", ["foo"], mk="std", pf=True), Case("c10lf_r1b", ["abcq", "cdq", "efq", "ghq"], mk="lf", pf=True),
                    Case("c10std_s2", ["zab", "zcd", "qef"], mk="std", pf=True)]
        cases += pf_cases
        # the packed searcher's span handling (Rabin-Karp: forced, and the path every short haystack takes);
        # a candidate crossing span.end ahead of / at the same start as an in-span match (seeded change C10b)
        pk_cases = [PackedCase("c10ll_rk_basic", ["ab", "abc", "b"], mk="ll", force="rk"),
                    PackedCase("c10lf_rk_cross", ["abcd", "bc"], mk="lf", force="rk")]
        if not quick:
            for mkk in ("std", "lf", "ll"):
                cases += seeded_cases("c10" + mkk, seed, 5, mkk)
            pk_cases.append(PackedCase("c10lf_t1_slow", ["a", "bc"], mk="lf", force="teddy128"))
        # Teddy's vector code on a span that ends inside the haystack (seeded change C10c)
        td_cases = [PackedCase("c10lf_t2", ["ab", "bcd"], mk="lf", force="teddy128")]
        cases += pk_cases + td_cases

        def mk(facts):
            hs = []
            for c in cases:
                if c in pk_cases:
                    hs.append(h_pk_span(prop, c, facts, n=4 if quick else 5))
                    continue
                if c in td_cases:
                    # span = exactly one vector's worth (the minimum the vector loop accepts); the window
                    # straddles span.end, three more haystack bytes follow it
                    end = 16 + facts[c.key]["teddy_bytes"] - 1
                    hs.append(h_pk_teddy(prop, c, facts, end + 3, end - 2, 4, 0x5a, end=end))
                    if not quick:
                        hs.append(h_pk_teddy(prop, c, facts, end + 4, end - 1, 4, 0x5a, end=end + 1))
                    continue
                h = h_span(prop, c, facts, "dfa", n=5 if quick else 7, an=EITHER if c not in pf_cases else UN)
                if c in pf_cases:
                    h.stubs = list(STUB_PF)
                    h.meta["prefilter"] = facts[c.name]["prefilter"][:120]
                hs.append(h)
                if c.mk == "std" and c not in pf_cases:
                    hs.append(h_span_ov(prop, c, facts, "dfa", n=4 if quick else 5))
            return hs
        return cases, mk
    if prop == "C14":
        cases = []
        for mkk in ("std", "lf", "ll"):
            cases += [Case("c14%s_basic" % mkk, ["abc", "bc", "c", "ab"], mk=mkk), Case("c14%s_prefix" % mkk, ["ab", "abcd"], mk=mkk),
                      Case("c14%s_empty" % mkk, ["abc", ""], mk=mkk), Case("c14%s_long" % mkk, ["abcd", "bc", "cd"], mk=mkk)]
            cases += seeded_cases("c14" + mkk, seed, 1 if quick else 6, mkk)

        # is_match / earliest on prefilter-accelerated searchers, both anchorings (an anchored search must not
        # consult the prefilter at all: seeded change C14c hides there), patterns of different lengths
        pf_cases = [Case("c14lf_pf_r1b", ["abcq", "cdq", "efq", "ghq"], mk="lf", pf=True),
                    Case("c14std_pf_s1", ["abc", "ab"], mk="std", pf=True),
                    # a prefilter that confirms matches by itself (memmem): must not be trusted under anchoring (seeded C14d)
                    Case("c14std_pf_mm", ["foo"], mk="std", pf=True)]
        if not quick:
            pf_cases += [Case("c14ll_pf_r2", ["abcz", "bz", "cq"], mk="ll", pf=True),
                         Case("c14lf_pf_r2ci", ["abc", "ab"], mk="lf", pf=True, ci=True)]
        cases += pf_cases

        def mk(facts):
            hs = [h_ismatch(prop, c, facts, "dfa", n=6 if quick else 8, an=EITHER) for c in cases]
            for h in hs:
                if h.case in pf_cases:
                    h.stubs = list(STUB_PF)
                    h.meta["prefilter"] = facts[h.case.name]["prefilter"][:120]
            for c in cases:
                if c.name.endswith("pf_mm"):
                    h = h_ac_ismatch(prop, c, facts, "dfa", n=4)
                    h.stubs = list(STUB_PF)
                    hs.append(h)
                if "empty" in c.name or "basic" in c.name:
                    if quick and c.mk == "ll":
                        continue
                    hs.append(h_ac_ismatch(prop, c, facts, "dfa", n=3 if quick else 4))
                    if not quick:
                        hs.append(h_ac_ismatch(prop, c, facts, "cnfa", n=3))
            return hs
        return cases, mk
    if prop in ("C04", "C16"):
        shapes = [("basic", ["abc", "bc", "c", "ab"]), ("chain", ["abcd", "bcd", "cd", "d"]), ("empty", ["ab", "", "b"]),
                  ("fan5", ["a", "ab", "ac", "ad", "ae", "af"]), ("fan9", ["xa", "xb", "xc", "xd", "xe", "xf", "xg", "xh", "xi"]),
                  ("one_match", ["ab", "abc"]), ("hi", [b"\x00\xff", b"\xff", b"\x80a"]),
                  # sparse states (depth >= dense_depth) with 4 / 5 / 9 transitions: chunk boundaries of the contiguous encoding
                  # (the builder records depth as true depth - 1, so with the default dense_depth of 2 the first
                  #  sparse level of the contiguous NFA is true depth 3: the fan-out sits behind a 3-byte prefix)
                  ("deep4", ["zzza", "zzzb", "zzzc", "zzzd"]), ("deep5", ["zzza", "zzzb", "zzzc", "zzzd", "zzze"]),
                  ("deep9", ["zzza", "zzzb", "zzzc", "zzzd", "zzze", "zzzf", "zzzg", "zzzh", "zzzi"]),
                  ("dup", ["ab", "ab", "b"]), ("chain2", ["cabx", "abq", "bd"])]
        cases = []
        for mkk in ("std", "lf"):
            for (nm, pats) in shapes:
                if quick and mkk == "lf" and nm not in ("basic", "empty"):
                    continue
                if quick and nm not in ("basic", "empty", "deep4", "hi", "dup", "chain2"):
                    continue
                if quick and prop == "C16" and nm not in ("basic", "empty", "dup", "deep4"):
                    continue
                cases.append(Case("%s%s_%s" % (prop.lower(), mkk, nm), pats, mk=mkk))
        # configuration product on one shape
        base = ["abc", "bc", "c", "ab"]
        for dd in ((0,) if quick else (0, 1, 16)):
            cases.append(Case("%sstd_dd%d" % (prop.lower(), dd), base, mk="std", dd=dd))
        cases.append(Case(prop.lower() + "std_nobc", ["ab", "b"], mk="std", bc=False))
        if not quick:
            cases.append(Case(prop.lower() + "std_nobc4", base, mk="std", bc=False))
        # 256 byte classes and every state sparse: the padding slots of the contiguous NFA's sparse encoding
        # (2 and 3 transitions: not a multiple of the chunk size) meet byte 0xFF (seeded change C16b)
        cases.append(Case(prop.lower() + "std_nobc_dd0", ["ab", "ac", "b", "cab", "cb", "cc"], mk="std", bc=False, dd=0))
        if not quick:
            cases.append(Case(prop.lower() + "lf_nobc_dd0", base, mk="lf", bc=False, dd=0))
            cases.append(Case(prop.lower() + "ll_basic", base, mk="ll"))
        cases.append(Case(prop.lower() + "std_un", base, mk="std", sk="un"))
        cases.append(Case(prop.lower() + "lf_an", base, mk="lf", sk="an"))
        cases.append(Case(prop.lower() + "std_ci", ["aB", "b@", "Z["], mk="std", ci=True))
        if not quick:
            for mkk in ("std", "lf", "ll"):
                cases += seeded_cases(prop.lower() + mkk, seed, 5, mkk)
                cases += seeded_cases(prop.lower() + mkk + "dd0", seed + 1, 2, mkk, dd=0)
                cases += seeded_cases(prop.lower() + mkk + "ci", seed + 2, 2, mkk, ci=True)

        def mk(facts):
            hs = []
            for c in cases:
                f = facts[c.name]
                hs.append(h_sim_meta(prop, c, facts))
                big = c.dd == 0
                dfa_modes = tuple(an for an in (UN, AN) if sk_allows(c, an))
                nfa_modes = tuple(an for an in (UN, AN) if not sk_allows(c, an))
                ng = 3 if big else 12
                if dfa_modes:
                    hs += h_sim(prop, c, facts, "cd", dfa_modes, group=40)
                    nd_quick = any(k in c.name for k in ("basic", "empty", "dup", "dd0", "ci", "hi"))
                    if not quick or nd_quick:
                        hs += h_sim(prop, c, facts, "nd", dfa_modes, group=ng, timeout=1800, dead_rows=False)
                    if not quick:
                        x = h_sim(prop, c, facts, "nd", dfa_modes, group=1, timeout=3000, dead_rows=True)
                        for h in x:
                            h.mem_gb = 28
                        hs += x
                if nfa_modes:
                    hs += h_sim(prop, c, facts, "nc", nfa_modes, group=ng, timeout=1800, dead_rows=False)
                if prop == "C04" and c.sk in ("both", "un") and ("basic" in c.name or "empty" in c.name) and c.mk != "ll":
                    # through the top-level searcher (find / is_match are decided by C14's wrapper harness)
                    if c.mk == "std":
                        hs.append(h_ac_iter(prop, c, facts, "dfa", n=3 if quick else 4, which="overlapping"))
                    if not quick:
                        # FindIter through the dyn dispatch needs > 16 GB (measured)
                        h = h_ac_iter(prop, c, facts, "dfa", n=3, which="iter", timeout=3000)
                        h.mem_gb = 28
                        hs.append(h)
                if prop == "C04" and ("basic" in c.name or "empty" in c.name or c.name.endswith("_un") or c.name.endswith("_an")):
                    # getters and Arc<dyn> forwarders of the top-level searcher vs the wrapped automaton
                    # (the forwarders are the same code whatever sits behind the trait object; two symbolic steps
                    #  of the contiguous NFA through the dyn dispatch exhaust 16 GB - measured - so quick uses the DFA)
                    for kind in ("dfa",) + (("cnfa",) if not quick else ()) + (("nnfa",) if (c.mk == "std" and not quick) else ()):
                        hs.append(h_ac_meta(prop, c, facts, kind))
                if prop == "C16" and c.sk in ("both", "un") and (not quick or "basic" in c.name or "empty" in c.name or "dd" in c.name):
                    hs.append(h_recipe(prop, c, facts, "dfa", n=6 if quick else 8))
            return hs
        return cases, mk
    if prop == "C13":
        cases = []
        for mkk in ("std", "lf", "ll"):
            for sk in ("both", "un", "an"):
                # quick: 6 of the 9 (match kind x start kind) cells + the two empty-pattern cases;
                # the vp budget is 900 s per quick check and every cell costs ~12 harnesses
                if quick and (mkk, sk) not in (("std", "both"), ("std", "un"), ("std", "an"), ("lf", "un"), ("lf", "an"), ("ll", "both")):
                    continue
                cases.append(Case("c13%s_%s" % (mkk, sk), ["ab", "b"], mk=mkk, sk=sk))
        cases.append(Case("c13std_un_empty", ["ab", ""], mk="std", sk="un"))
        # the empty pattern FIRST (no non-empty pattern precedes it: seeded C13c made rejection order dependent)
        cases.append(Case("c13std_un_empty1", ["", "ab"], mk="std", sk="un"))
        cases.append(Case("c13lf_both_empty", ["", "ab"], mk="lf", sk="both"))
        if not quick:
            cases.append(Case("c13std_both_other", ["abc", "c", "ca"], mk="std", sk="both"))
            cases.append(Case("c13lf_an_other", ["abc", "c", "ca"], mk="lf", sk="an"))

        def mk(facts):
            hs = []
            for c in cases:
                kinds = ["dfa", "cnfa", "nnfa"]
                if quick and c.name not in ("c13std_un",):
                    kinds = ["dfa"]
                if not quick or c.name in ("c13std_un", "c13lf_both_empty", "c13lf_an"):
                    hs.append(h_iter_never_fails(prop, c, facts, "dfa", ov=False))
                if c.mk == "std" and (not quick or c.name in ("c13std_un",)):
                    hs.append(h_iter_never_fails(prop, c, facts, "dfa", ov=True))
                if quick and c.name in ("c13std_an", "c13lf_an", "c13lf_un"):
                    # the DFA refuses an unsupported anchoring by itself (start_state fails); both NFAs support
                    # both start states, so on them only the top-level consistency check can reject: every
                    # fallible entry point on one NFA in the cells with a one-sided start kind (seeded change C13b)
                    for api in [0, 1, 2, 3]:
                        hs.append(h_reject_fallible(prop, c, facts, "cnfa", api))
                for kind in kinds:
                    full = kind == "dfa" or not quick
                    for api in ([0, 1, 2, 3] if full else [2]):
                        hs.append(h_reject_fallible(prop, c, facts, kind, api))
                    if full:
                        hs.append(h_reject_sr(prop, c, facts, kind, "stream"))
                        if c.sk == "an":
                            # accepted configurations run the whole replace driver through the
                            # dyn dispatch, which exhausts 16 GB (measured); the rejected cells
                            # return before it and are decided here
                            hs.append(h_reject_sr(prop, c, facts, kind, "replace"))
                    infall = [6, 0, 1, 2, 3]
                    if quick:
                        # every infallible API is `try_x(..).expect(..)`; quick keeps the two that had defects
                        # (is_match, find_overlapping) everywhere and the rest on one cell
                        infall = [6, 0, 1, 2, 3] if c.name == "c13std_un" else [6, 2]
                    for api in (infall if full else [6]):
                        for rej in (True, False):
                            if reject_possible(c, 0 if api == 6 else api, rej):
                                hs.append(h_reject_infallible(prop, c, facts, kind, api, rej))
            return hs
        return cases, mk
    if prop == "C05":
        fams = [("s1", ["abc", "ab"], False), ("s2", ["zab", "zcd", "qef"], False), ("s3", ["xa", "xb", "yc", "zd"], False),
                ("r1a", ["abc", "b"], False), ("r1b", ["abcq", "cdq", "efq", "ghq"], False), ("r2", ["az", "bz", "cq"], False),
                ("r3", ["ab", "cd", "ef"], False), ("mm", ["foo"], False), ("r2ci", ["abc", "ab"], True),
                ("s2ci", ["zq", "zj"], True),
                # case-insensitive with exactly three start bytes (a letter counts twice): the packed shortcut of the
                # prefilter builder must not fire (seeded C05c)
                ("s3ci", ["foo", "1bar"], True)]
        cases = []
        for (nm, pats, ci) in fams:
            for mkk in ("std", "lf"):
                if nm in ("s3", "r3") and mkk == "lf":
                    continue  # leftmost selects the packed prefilter for these (decided with C06)
                if quick and mkk == "lf" and nm in ("s2", "r1a", "s2ci"):
                    continue
                if quick and mkk == "std" and nm in ("s3ci",):
                    continue
                cases.append(Case("c05%s_%s" % (mkk, nm), pats, mk=mkk, ci=ci, pf=True))
        # packed prefilter (leftmost kinds only): a Candidate::Match is used verbatim
        pk_cases = [Case("c05lf_pk", ["ab", "cd", "ef"], mk="lf", pf=True),
                    Case("c05lf_pkshadow", ["ab", "abc", "cd", "ef"], mk="lf", pf=True)]
        if not quick:
            pk_cases.append(Case("c05ll_pk", ["ab", "abc", "cd", "ef"], mk="ll", pf=True))
        cases += pk_cases
        if not quick:
            cases.append(Case("c05ll_r1b", ["abcq", "cdq", "efq", "ghq"], mk="ll", pf=True))
            cases.append(Case("c05ll_s1", ["abc", "ab"], mk="ll", pf=True))

        def mk(facts):
            hs = []
            # which cases carry a packed prefilter is a fact of this tree's prefilter builder, not of the
            # catalogue: a case that unexpectedly selects the packed searcher (seeded C05c: case-insensitive
            # automata must never get one) is searched with it, not with the "packed unused" stub
            for c in cases:
                if facts[c.name]["pf_code"] == 8 and c not in pk_cases:
                    pk_cases.append(c)
            for c in cases:
                n = 8 if (c.maxlen >= 4 or not quick) else 7
                if c in pk_cases:
                    n = 5 if quick else 6  # Rabin-Karp inside the prefilter: 20+ min at N=7 (measured)
                h = h_find(prop, c, facts, "dfa", n=n, an=UN, timeout=1200 if quick else 3000)
                h.stubs = list(STUB_PF)
                h.meta["prefilter"] = facts[c.name]["prefilter"][:120]
                hs.append(h)
                if (not quick or c.mk == "lf" or "r1b" in c.name) and not (quick and c in pk_cases):
                    h = h_iter2(prop, c, facts, "dfa", n=(4 if c in pk_cases else 5) if quick else 6, an=UN, timeout=1200 if quick else 3000)
                    h.stubs = list(STUB_PF)
                    hs.append(h)
                if c.mk == "std" and (not quick or any(k in c.name for k in ("r1b", "s1", "r2"))):
                    h = h_ov_step(prop, c, facts, "dfa", n=5 if quick else 6, timeout=1200)
                    h.stubs = list(STUB_PF)
                    hs.append(h)
                if not quick:
                    h = h_find(prop, c, facts, "cnfa", n=4, an=UN, timeout=1500, tag="_pf")
                    h.stubs = list(STUB_PF)
                    hs.append(h)
            for c in cases:
                n = 6 if c in pk_cases else (8 if c.maxlen >= 4 else 7)
                hu = Harness("h_pfcand_%s_n%d" % (c.name, n), c, "    t::pf_candidate::<%s, %d>();" % (c.mod, n),
                             base_unwind(c, facts, n), [("hay", ("bytes", n)), ("s", "usize"), ("e", "usize")],
                             dict(template="pf_candidate", replay_template="find", kind="dfa", N=n, fixed_inputs={"anchored": 0},
                                  symbolic=["haystack bytes", "span"], prefilter=facts[c.name]["prefilter"][:120]),
                             timeout=1200, stubs=list(STUB_PF), functions=[])
                hs.append(hu)
            for h in hs:
                if h.case in pk_cases and h.meta["template"] != "pf_candidate" and quick:
                    # measured: the automaton + packed prefilter search exhausts 16 GB at N=5;
                    # quick decides the packed prefilter through pf_candidate (above)
                    h.skip = True
            hs = [h for h in hs if not getattr(h, "skip", False)]
            for h in hs:
                if h.case in pk_cases:
                    f = facts[h.case.name]
                    if f["pf_code"] != 8:
                        # the catalogue expected a packed prefilter here; whatever was selected instead is checked
                        h.stubs = list(STUB_PF)
                        h.meta["note"] = "catalogue expected the packed prefilter; this tree selected %s" % f["prefilter"][:60]
                        continue
                    h.stubs = [st for st in STUB_PF if "packed" not in st[0]]
                    h.meta["cut"] = ("the prefilter's packed searcher is rebuilt with its Rabin-Karp half only; every "
                                     "haystack here is shorter than its Teddy minimum length (%d), where the real "
                                     "find_in takes exactly that path" % f["pf_packed_min"])
                    h.functions = h.functions + F_RK + ["prefilter::Packed::find_in"]
                    h.unwindset = dict(h.unwindset)
                    h.unwindset.update({("9RabinKarp7find_at", 0): f["pf_packed_max_bucket"] + 1,
                                        ("12is_equal_raw", 0): (h.case.maxlen + 3) // 4 + 1, ("=memcmp", 0): 5})
                h.functions = h.functions + ["Prefilter::find_in", "prefilter::{StartBytes*,RareBytes*,Memmem}::find_in",
                                             "Candidate::into_option", "prefilter branches of try_find_fwd_imp/try_find_overlapping_fwd_imp"]
                h.name = h.name  # names already unique per case
            return hs
        return cases, mk
    if prop in ("C06", "C15"):
        rk = [("basic", ["ab", "abc", "b"]), ("samehash", ["ab", "ba", "c`"]), ("long", ["abcd", "bcd", "cd"]),
              ("dup", ["ab", "ab", "a"]), ("hi", [b"\xff\x00", b"\x00"])]
        cases = []
        for (nm, pats) in rk:
            for mkk in ("lf", "ll"):
                if quick and mkk == "ll" and nm not in ("basic", "long"):
                    continue
                cases.append(PackedCase("%s%s_rk_%s" % (prop.lower(), mkk, nm), pats, mk=mkk, force="rk"))
        # many patterns (>= 21: std's unstable sort stops being an insertion sort), mixed lengths,
        # duplicates at several placements: the leftmost-longest order must keep supply order on ties
        many = []
        rng = random.Random(4242)
        base = ["ab", "abc", "ba", "bab", "cc", "cab", "da", "dab", "abcd", "bb", "bca", "ad", "dd", "cda", "acb", "bd"]
        many = list(base)
        for d in ("abc", "ba", "dab", "cc", "bca", "ab", "cda", "abcd"):
            many.insert(rng.randint(0, len(many)), d)
        while len(many) < 24:
            many.insert(rng.randint(0, len(many)), rng.choice(base))
        many = many[:24]
        if not quick:
            # measured: 32 patterns at N=5 did not finish in 40 min; thorough only, 24 patterns, N=4
            cases.append(PackedCase(prop.lower() + "ll_rk_many", many, mk="ll", force="rk"))
        # the same concern at a smaller size: 24 patterns of one and two bytes, every one supplied twice
        # (12 distinct), shuffled; haystacks up to 3 bytes (seeded C06a). Measured: > 14 min at 3 GB, i.e.
        # over the 900 s a quick check may take, so it stays in the thorough tier as well
        short = ["a", "b", "c", "d", "ab", "ba", "cd", "dc", "ac", "bd", "da", "cb"] * 2
        random.Random(777).shuffle(short)
        if prop == "C06" and (not quick or __import__("os").environ.get("VERIF_PROBE_MANY12")):
            cases.append(PackedCase(prop.lower() + "ll_rk_many12", short, mk="ll", force="rk"))
        # Teddy searchers: below their minimum length find_in falls back to Rabin-Karp
        cases.append(PackedCase(prop.lower() + "lf_t1_slow", ["a", "bc"], mk="lf", force="teddy128"))
        # t1: a fingerprint byte with bit 7 set (pshufb zeroes such index lanes: seeded C06d) next to ASCII ones;
        # t4: 4-byte fingerprints (Slim<V,4>: seeded C06b, C15b)
        tcases = [PackedCase(prop.lower() + "lf_t1", [b"\xe9", "bc"], mk="lf", force="teddy128"),
                  PackedCase(prop.lower() + "lf_t4", ["abcd", "bcde"], mk="lf", force="teddy128"),
                  PackedCase(prop.lower() + "lf_t2", ["ab", "bcd"], mk="lf", force="teddy128"),
                  PackedCase(prop.lower() + "ll_t2", ["ab", "abc"], mk="ll", force="teddy128")]
        if not quick:
            tcases += [PackedCase(prop.lower() + "lf_t3", ["abc", "bcd"], mk="lf", force="teddy128"),
                       PackedCase(prop.lower() + "lf_t1c", ["a", "q", "A"], mk="lf", force="teddy128"),
                       PackedCase(prop.lower() + "lf_fat2", ["ab", "bcd"], mk="lf", force="fat"),
                       PackedCase(prop.lower() + "lf_fat4", ["abcd", "bcde"], mk="lf", force="fat"),
                       PackedCase(prop.lower() + "ll_fat2", ["ab", "abc"], mk="ll", force="fat"),
                       PackedCase(prop.lower() + "lf_s256_4", ["abcd", "bcde"], mk="lf", force="teddy256")]
        # fat Teddy (16 buckets; 256-bit vectors holding two copies of a 16-byte window) and the 256-bit slim
        # Teddy, rebuilt from the natively dumped AVX2 searchers and called on the concrete implementation
        # (Kani mis-models Arc<dyn Trait> around a 32-byte aligned payload; DESIGN 3 C06)
        acases = [PackedCase(prop.lower() + "lf_fat1", [b"\xe9", "bc"], mk="lf", force="fat"),
                  PackedCase(prop.lower() + "lf_s256", ["a", "bc"], mk="lf", force="teddy256"),
                  # 4-byte fingerprints on the fat variant (Fat<V,4>::find: seeded C06e)
                  PackedCase(prop.lower() + "lf_fat4q", ["abcd", "bcde"], mk="lf", force="fat")]
        tcases += acases
        cases += tcases

        def mk(facts):
            hs = [h_pk_prim(prop, 0, 7), h_pk_prim(prop, 8, 13)]
            for c in cases:
                f = facts[c.key]
                if c in tcases:
                    m = f["teddy_bytes"]
                    # shortest haystack the vector loop accepts: one vector (slim), half a vector (fat)
                    length = (32 if f.get("teddy_variant") == 1 else 16) + m - 1
                    w = int(__import__("os").environ.get("VERIF_TEDDY_W", min(c.maxlen + 2, 4)))
                    wins = [(length + 1, length + 1 - w)] if quick else [(length, 0), (length, length - w), (length + 2, 14), (length + 2, length + 2 - w)]
                    if quick and c is tcases[1]:
                        # C15: the first window (loads at the very start of the exact object); C06: the final one
                        wins = [(length, 0)] if prop == "C15" else [(length + 1, length + 1 - w)]
                    if quick and c in acases:
                        wins = [(length, 0)] if prop == "C15" else [(length + 1, length + 1 - w)]
                    if quick and c not in tcases[:2] and c not in acases:
                        continue
                    if not quick and ("t4" in c.name or c.name.endswith("s256_4")):
                        # two full vectors and the overlapping final window shifted by V-1 bytes: the occurrence
                        # straddles the end of the last full window and its 4th byte is the 2nd byte of the final
                        # window (prev0..2 carried / reset: seeded C06b needs exactly L = 2V+2, start = L-V-2)
                        vb = 32 if f.get("teddy_variant") == 1 else 16
                        wins += [(2 * vb + 2, vb), (2 * vb + 2, 2 * vb - 2), (2 * vb + 3, vb - 1)]
                    for (ln, off) in dict.fromkeys(wins):
                        hs.append(h_pk_teddy(prop, c, facts, ln, off, w, 0x5a))
                    continue
                n = 6 if quick else 8
                if prop == "C15" and quick and not any(k in c.name for k in ("basic", "long", "hi", "slow")):
                    continue
                if "many12" in c.name:
                    hs.append(h_pk_find(prop, c, facts, n=3))
                    continue
                if "many" in c.name:
                    h = h_pk_find(prop, c, facts, n=4, timeout=5400)
                    h.mem_gb = 28
                    hs.append(h)
                    continue
                hs.append(h_pk_find(prop, c, facts, n=n))
                if not quick or (prop == "C06" and ("basic" in c.name or "long" in c.name)):
                    hs.append(h_pk_iter2(prop, c, facts, n=(4 if "basic" in c.name else 5) if quick else 6))
                if (prop == "C15" and any(k in c.name for k in ("basic", "long", "hi", "slow"))) or not quick:
                    hs.append(h_pk_span(prop, c, facts, n=5 if not quick else 4))
            return hs
        return cases, mk
    if prop in ("C07", "C08", "C18"):
        pl = prop.lower()
        cases = [Case(pl + "_basic", ["abc", "bc", "c", "ab"], mk="std", sk="un"), Case(pl + "_two", ["ab", "b"], mk="std", sk="un"),
                 Case(pl + "_aab", ["aab", "ab"], mk="std", sk="un"),
                 # longest pattern >= shortest + 2 and its proper prefixes match nothing: a straddling match
                 # keeps more than min_pattern_len bytes in the buffer across a roll (seeded change C08c)
                 Case(pl + "_gap", ["abc", "c"], mk="std", sk="un")]
        one = Case(pl + "_one", ["a", "b"], mk="std", sk="un")
        if prop in ("C08", "C18"):
            cases.append(one)
        if not quick:
            cases += [Case(pl + "_ci", ["aB", "b"], mk="std", sk="un", ci=True), Case(pl + "_long", ["abcd", "cd", "d"], mk="std", sk="un")]

        def mk(facts):
            hs = []
            for c in cases:
                core = "basic" in c.name or "two" in c.name
                if prop in ("C07", "C08"):
                    for spare in ((1, 2) if (not quick or "two" in c.name) else (1,)):
                        hs.append(h_stream_step(prop, c, facts, "dfa", t=c.maxlen + spare + 2, spare=spare))
                    if c.maxlen >= 2:
                        # streams shorter than the longest pattern: the first fill hits the end of the
                        # data with fewer than `min` bytes buffered (seeded change C08b lives there)
                        hs.append(h_stream_step(prop, c, facts, "dfa", t=c.maxlen - 1, spare=1))
                    if not quick:
                        hs.append(h_stream_step(prop, c, facts, "dfa", t=c.maxlen + 5, spare=3, timeout=2400))
                        hs.append(h_stream_step(prop, c, facts, "cnfa", t=c.maxlen + 2, spare=1, timeout=2400))
                if prop == "C07":
                    hs.append(Harness("h_sinit_%s_dfa" % c.name, c, _body(c, "dfa", "t::stream_init::<%s, _, 1>(&a)" % c.mod),
                                      max(base_unwind(c, facts, 2), 6), [], dict(template="stream_init", replay_template="ac_meta", kind="dfa", spare=1,
                                      note="the constructor's state is the base case of the stream induction"),
                                      timeout=600, covers_required=False, functions=["Automaton::try_stream_find_iter", "StreamChunkIter::new", "Buffer::new"]))
                if prop == "C07":
                    # the same base case through the top-level searcher (buffer minimum via the forwarder)
                    hs.append(h_ac_stream_init(prop, c, facts, "dfa"))
                    if "aab" in c.name or not quick:
                        hs.append(h_ac_meta(prop, c, facts, "dfa"))
                if prop == "C07" and not quick:
                    # complete runs through the constructor: > 24 GB / 25 min at T=3 (measured); T=2 in thorough
                    h = h_stream_run(prop, c, facts, "dfa", t=2, timeout=3000)
                    h.mem_gb = 28
                    hs.append(h)
                if prop == "C08" and not quick:
                    # complete driver runs: T=2 exhausts 24-28 GB (measured), T=1 on single-byte patterns takes
                    # 12-15 min - over the 900 s budget of a quick check, so the driver runs are thorough-only;
                    # quick decides the chunk sequence (positions and bytes) by the inductive step above, and the
                    # driver's error handling through C18's writer-fault harnesses
                    h = h_stream_replace(prop, c, facts, "dfa", t=1 if quick else 2, timeout=2400 if quick else 5400)
                    h.mem_gb = 28
                    hs.append(h)
                if prop == "C08" and c is one and (not quick or __import__("os").environ.get("VERIF_PROBE_SREPL")):
                    # a 2-byte non-match chunk ahead of a match (buffer of 3): short writes matter (seeded C08d)
                    h = h_stream_replace(prop, c, facts, "dfa", t=3, spare=2, timeout=5400)
                    h.mem_gb = 28
                    hs.append(h)
                if prop == "C18":
                    hs.append(h_stream_step(prop, c, facts, "dfa", t=c.maxlen + 3, spare=1, fault=True))
                    if c is one:
                        t_ = 1
                        hw = Harness("h_swfault_%s_dfa_t%d" % (c.name, t_), c, _body(c, "dfa", "t::stream_wfault::<%s, _, %d, %d>(&a)" % (c.mod, t_, 2 * t_ + 2)),
                                     max(base_unwind(c, facts, t_), c.maxlen + 3, 2 * t_ + 4), [("hay", ("bytes", t_))],
                                     dict(template="stream_wfault", replay_template="stream", kind="dfa", T=t_, cap=c.maxlen + 1,
                                          fixed_inputs={"spare": 1, "fault": 1},
                                          symbolic=["stream bytes", "size of every read()", "index of the failing write() call"]),
                                     timeout=1500, mem_gb=28, unwindset=stream_unwindset(c, t_, c.maxlen + 1),
                                     unsat_ok={"a writer failure after some output"},
                                     functions=["Automaton::try_stream_replace_all_with", "StreamChunkIter::new"] + F_STREAM + F_KIND["dfa"])
                        hs.append(hw)
                        # the slice-table entry point (its own wrapper around the writer: seeded C18c)
                        hs.append(Harness("h_swfaulttbl_%s_dfa_t%d" % (c.name, t_), c, _body(c, "dfa", "t::stream_wfault_tbl::<%s, _, %d, %d>(&a)" % (c.mod, t_, 2 * t_ + 2)),
                                          max(base_unwind(c, facts, t_), c.maxlen + 3, 2 * t_ + 4), [("hay", ("bytes", t_))],
                                          dict(template="stream_wfault_tbl", replay_template="stream", kind="dfa", T=t_, cap=c.maxlen + 1,
                                               fixed_inputs={"spare": 1, "fault": 1, "table": 1},
                                               symbolic=["stream bytes", "size of every read()", "index of the failing write() call"]),
                                          timeout=1500, mem_gb=28, unwindset=stream_unwindset(c, t_, c.maxlen + 1),
                                          functions=["Automaton::try_stream_replace_all", "Automaton::try_stream_replace_all_with", "StreamChunkIter::new"] + F_STREAM + F_KIND["dfa"]))
                    if not quick:
                        h = h_stream_replace(prop, c, facts, "dfa", t=2, wfault=True, timeout=5400)
                        h.mem_gb = 28
                        hs.append(h)
            return hs
        return cases, mk
    if prop == "C12":
        cases = [] if quick else [Case("c12std_two", ["ab", "b"], mk="std"), Case("c12lf_two", ["ab", "a"], mk="lf"),
                 Case("c12lf_empty", ["a", ""], mk="lf"), Case("c12std_split", [b"\xc3", "a"], mk="std"),
                 Case("c12lf_split", [b"\xa9", b"\xc3\xa9x"], mk="lf")]

        def mk(facts):
            hs = []
            # compositional harnesses (abstract searcher): measured N=4 160 s (str) / 380 s (bytes), N=2 60 s
            nscript = int(__import__("os").environ.get("VERIF_C12S", "4" if quick else "5"))
            hs.append(h_replace_script(prop, "b", nscript, timeout=1500 if quick else 5400))
            hs.append(h_replace_script(prop, "s", nscript, timeout=1500 if quick else 5400))
            if quick:
                # the direct harnesses (real automaton under the driver) cost 8-17 min at N=1..2: thorough only
                return hs
            for c in cases:
                # measured: 8-13 min and up to 20 GB per harness at N=2 even with the no-growth stub
                if "split" not in c.name and (not quick or c.name in ("c12lf_empty",)):
                    hs.append(h_replace_bytes(prop, c, facts, "dfa", n=int(__import__("os").environ.get("VERIF_C12N", "2")) if quick else 3, timeout=2400 if quick else 5400))
                if ("split" in c.name or "empty" in c.name) and (not quick or c.name in ("c12lf_empty",)):
                    hs.append(h_replace_str(prop, c, facts, "dfa", n=int(__import__("os").environ.get("VERIF_C12N", "2")) if quick else 3, timeout=2400 if quick else 5400))
            return hs
        return cases, mk
    if prop == "C17":
        cases = [Case("c17std_basic", ["abc", "bc", "c", "ab"], mk="std"), Case("c17lf_basic", ["abc", "bc", "c", "ab"], mk="lf"),
                 Case("c17lf_un", ["abc", "b"], mk="lf", sk="un"), Case("c17std_an", ["abc", "b"], mk="std", sk="an"),
                 Case("c17lf_pf", ["abc", "b"], mk="lf", pf=True),
                 # a rare-byte prefilter (four start bytes, one rare byte)
                 Case("c17std_pfr", ["aZ", "bZ", "cZ", "dZ"], mk="std", pf=True)]

        def mk(facts):
            hs = []
            for c in cases:
                h = h_purity(prop, c, facts, "dfa", n=(2 if c.sk == "both" else 3) if quick else 4)
                h.mem_gb = 24
                if quick and "pfr" in c.name:
                    h = None  # 12 min on the four-pattern rare-byte case (measured); purity_same covers it in quick
                if not c.pf:
                    hc = Harness("h_pureclone_%s_dfa_n2" % c.name, c, _body(c, "dfa", "t::purity_clone::<%s, _, 2>(&a)" % c.mod),
                                 max(base_unwind(c, facts, 2), facts[c.name]["dfa_match_rows"] + 2), [("h", ("bytes", 2)), ("a", "bool")],
                                 dict(template="purity_clone", kind="dfa", N=2, symbolic=["haystack bytes", "anchoring"]),
                                 timeout=1200, mem_gb=24, functions=F_SEARCH + F_KIND["dfa"] + ["Clone for DFA"], covers_required=False)
                    hs.append(hc)
                if h is not None:
                    if c.pf:
                        h.stubs = list(STUB_PF)
                    hs.append(h)
                if not quick and not c.pf:
                    hs.append(h_purity(prop, c, facts, "cnfa", n=3))
                if c.pf or "basic" in c.name:
                    n = 5 if quick else 6
                    hq = Harness("h_puresame_%s_dfa_n%d" % (c.name, n), c, _body(c, "dfa", "t::purity_same::<%s, _, %d>(&a)" % (c.mod, n)),
                                 base_unwind(c, facts, n),
                                 [("hay", ("bytes", n)), ("s1", "usize"), ("e1", "usize"), ("s", "usize"), ("e", "usize"), ("a1", "bool"), ("anchored", "bool")],
                                 dict(template="purity_same", replay_template="find_after", kind="dfa", N=n,
                                      symbolic=["one haystack", "two spans", "two anchoring modes"],
                                      note="both searches read the same haystack object: state keyed by the haystack address cannot hide"),
                                 timeout=1200, functions=F_SEARCH + F_KIND["dfa"] + ["Prefilter::find_in"], stubs=list(STUB_PF) if c.pf else [])
                    hs.append(hq)
            return hs
        return cases, mk
    if prop == "C19":
        fam = [("akb", ["aaab", "aab", "ab", "b"]), ("nest", ["abcd", "bcd", "cd", "d"]), ("basic", ["abc", "bc", "c", "ab"])]
        cases = []
        for mkk in ("std", "lf"):
            for (nm, pats) in fam:
                if quick and mkk == "lf" and nm != "akb":
                    continue
                cases.append(Case("c19%s_%s" % (mkk, nm), pats, mk=mkk))
        cases.append(Case("c19std_ci", ["aAb", "ab"], mk="std", ci=True))
        cases.append(Case("c19lf_pf", ["abcq", "cdq"], mk="lf", pf=True))
        cases.append(Case("c19std_pfs", ["abc", "ab"], mk="std", pf=True))
        cases.append(Case("c19std_pfr2", ["az", "bz", "cq", "dq"], mk="std", pf=True))

        def mk(facts):
            hs = []
            for c in cases:
                h = h_work(prop, c, facts, "dfa", n=6 if quick else 8, an=UN if c.pf else EITHER)
                if c.pf:
                    h.stubs = list(STUB_PF)
                hs.append(h)
                if c.mk == "std" and (c.pf or "akb" in c.name):
                    # one overlapping step (its own start-state prefilter branch: seeded C19d)
                    hs.append(h_work_ov(prop, c, facts, "dfa", n=6 if quick else 8, stubs=list(STUB_PF) if c.pf else ()))
                hs.append(h_fail_depth(prop, c, facts))
                if not c.pf and not quick:
                    # contiguous NFA over 2 symbolic bytes: 13 min / 16 GB (measured); thorough only
                    hs.append(h_work(prop, c, facts, "cnfa", n=2, an=EITHER, timeout=3000))
                if not c.pf and ("akb" in c.name or not quick):
                    if c.mk == "std":
                        hs.append(h_work(prop, c, facts, "nnfa", n=3 if not quick else 2, an=EITHER, timeout=1800))
                    elif not quick:
                        # leftmost automata fail into the DEAD sentinel, whose 256-entry sparse list is walked
                        h = h_work(prop, c, facts, "nnfa", n=2, an=UN, timeout=3000)
                        h.unwindset = {("follow_transition_sparse", 0): 258}
                        h.mem_gb = 28
                        hs.append(h)
            return hs
        return cases, mk
    if prop == "C11":
        fams = [("mixed", ["aB", "b@", "Z["]), ("casedup", ["foo", "FOO", "Fo"]), ("nonascii", [b"\xc1a", "A"]),
                ("bound", ["@a", "`z", "{Z"]), ("suffix", ["aBc", "bC", "c"]),
                # with folding every letter child of a state is reached by two links: builder steps that assume
                # "one link per child" (match copying from the start state: seeded C03c; leftmost cut: seeded C01c)
                ("empty", ["", "aB"]), ("infix", ["abcd", "bce", "bc"])]
        cases = []
        for mkk in ("std", "lf", "ll"):
            for (nm, pats) in fams:
                if quick and mkk == "ll" and nm not in ("casedup", "infix"):
                    continue
                if quick and mkk == "lf" and nm in ("bound", "nonascii", "empty"):
                    continue
                if quick and mkk == "std" and nm in ("infix",):
                    continue
                cases.append(Case("c11%s_%s" % (mkk, nm), pats, mk=mkk, ci=True))
        pf_cases = [Case("c11lf_pf_r2", ["abc", "ab"], mk="lf", ci=True, pf=True),
                    Case("c11std_pf_s2", ["zq", "zj"], mk="std", ci=True, pf=True),
                    Case("c11std_pf_r2b", ["aZ", "bZ"], mk="std", ci=True, pf=True),
                    # one rare letter at two different offsets: the larger offset must reach both of its
                    # cases, whichever pattern set it last (seeded C11c)
                    Case("c11lf_pf_roff", ["eZ", "abcZ"], mk="lf", ci=True, pf=True)]
        cases += pf_cases
        for mkk in ("std", "lf", "ll"):
            cases += seeded_cases("c11" + mkk, seed, (2 if mkk != "ll" else 1) if quick else 5, mkk, ci=True)

        def mk(facts):
            hs = []
            for c in cases:
                h = h_find(prop, c, facts, "dfa", n=6 if quick else 8, an=EITHER if c not in pf_cases else UN, timeout=1200)
                if c in pf_cases:
                    h.stubs = list(STUB_PF)
                hs.append(h)
                if c.mk == "std" and (not quick or "casedup" in c.name or "suffix" in c.name):
                    hs.append(h_ov_step(prop, c, facts, "dfa", n=4 if quick else 5))
                if c.mk == "std" and "empty" in c.name:
                    # match lists per state (the folded textbook automaton) and a complete overlapping drain
                    hs += h_std_struct(prop, c, facts)
                    hs.append(h_ov_drain(prop, c, facts, "dfa", n=2 if quick else 3, kcap=10, span=not quick))
                if not quick or "casedup" in c.name:
                    h = h_iter2(prop, c, facts, "dfa", n=4 if quick else 6, an=UN)
                    if c in pf_cases:
                        h.stubs = list(STUB_PF)
                    hs.append(h)
            hs.append(Harness("h_oppcase", None, "    t::opp_case();", 4, [("b", "u8")],
                              dict(template="opp_case", replay_template="opp_case", symbolic=["byte (all 256 values)"]),
                              functions=["util::prefilter::opposite_ascii_case"]))
            return hs
        return cases, mk
    raise KeyError(prop)


COMMON_ASSUMPTIONS = [
    "bounded model checking: every verdict holds for all symbolic inputs within the stated N/P/L/K bounds and says nothing beyond them; unwinding assertions are on, so a bound that is too small fails the run instead of truncating it",
    "pattern lists are quantified by a finite catalogue (listed under coverage.catalogue), not symbolically: the automata are built natively by /repo's real builders for exactly these lists and handed to the solver as constants",
    "the automaton under symbolic execution is a loop-free reconstruction of the natively built one; vdump checks on every run that it is transition- and observation-equivalent to the original",
    "trusted: rustc MIR, Kani 0.68 MIR->goto translation and its alloc model, CBMC 6.11, CaDiCaL; x86_64 little endian; dev-profile semantics (overflow checks on)",
    "allocation failure, real threads and the inside of the memchr crate are outside every claim",
]


def assumptions(prop, tier):
    return list(COMMON_ASSUMPTIONS)
