"""Pipeline driver (DESIGN.md section 1.2): catalogue -> vdump (native, real
builders) -> generated statics + harness instantiations -> cargo kani per
harness in parallel -> result parsing -> native replay of counterexamples ->
evidence."""
import json
import os
import re
import resource
import shutil
import subprocess
import sys
import time
from concurrent.futures import ThreadPoolExecutor

VERIF = "/verif"
# The registered commands always verify /repo. VERIF_REPO lets the seeded-change
# experiments point the same machinery at a scratch worktree instead.
REPO = os.environ.get("VERIF_REPO", "/repo")
HOOKS = os.path.join(VERIF, "hooks")
SCRATCH_BASE = "/var/tmp"

BASE_ENV = dict(os.environ)
BASE_ENV.update(
    {
        "AHO_CORASICK_VERIF_HOOKS": HOOKS,
        "RUSTFLAGS": "--cfg aho_corasick_verif",
        "CARGO_NET_OFFLINE": "true",
        "CARGO_TERM_COLOR": "never",
    }
)
# the harness/vdump crates are out of tree: never let an inherited toolchain
# override change what they are built with
BASE_ENV.pop("RUSTUP_TOOLCHAIN", None)


class Inconclusive(Exception):
    pass


def log(*a):
    print(*a, file=sys.stderr, flush=True)


def sh(cmd, cwd=None, env=None, timeout=None, check=True):
    p = subprocess.run(
        cmd, cwd=cwd, env=env or BASE_ENV, timeout=timeout,
        stdout=subprocess.PIPE, stderr=subprocess.STDOUT, text=True, errors="replace",
    )
    if check and p.returncode != 0:
        raise Inconclusive("command failed (%d): %s\n%s" % (p.returncode, " ".join(cmd), p.stdout[-4000:]))
    return p


def copy_lock(dst):
    """Cargo.lock is untracked in the repository: use the tree's own when it is
    there (same dependency versions as the test suite), else /repo's, else let
    cargo resolve offline from the local registry."""
    for src in (os.path.join(REPO, "Cargo.lock"), "/repo/Cargo.lock"):
        if os.path.exists(src):
            shutil.copy(src, dst)
            return


# --------------------------------------------------------------------------
# cases


class Case:
    """A catalogue case: pattern list + builder configuration."""

    def __init__(self, name, pats, mk="lf", ci=False, pf=False, dd=None, bc=True, sk="both"):
        self.name = name
        self.pats = [p if isinstance(p, bytes) else p.encode("latin1") for p in pats]
        self.mk, self.ci, self.pf, self.dd, self.bc, self.sk = mk, ci, pf, dd, bc, sk

    @property
    def mod(self):
        return "gen::c_%s::C" % self.name

    def line(self):
        pats = ",".join(("e" if len(p) == 0 else p.hex()) for p in self.pats) if self.pats else "-"
        return "%s %s %d %d %s %d %s %s" % (
            self.name, self.mk, int(self.ci), int(self.pf),
            "default" if self.dd is None else str(self.dd), int(self.bc), self.sk, pats,
        )

    def describe(self):
        return {
            "name": self.name, "patterns": [p.decode("latin1") for p in self.pats],
            "match_kind": self.mk, "ascii_case_insensitive": self.ci, "prefilter": self.pf,
            "dense_depth": self.dd, "byte_classes": self.bc, "start_kind": self.sk,
        }

    @property
    def maxlen(self):
        return max([len(p) for p in self.pats] or [0])

    @property
    def minlen(self):
        return min([len(p) for p in self.pats] or [0])


class PackedCase:
    """A packed-searcher case: patterns + packed::Config."""

    def __init__(self, name, pats, mk="lf", force="rk"):
        self.name = name
        self.pats = [p if isinstance(p, bytes) else p.encode("latin1") for p in pats]
        self.mk, self.force = mk, force
        self.ci, self.sk = False, "un"

    @property
    def mod(self):
        return "gen::p_%s::C" % self.name

    @property
    def key(self):
        return "packed:" + self.name

    def line(self):
        return "packed %s %s %s %s" % (self.name, self.mk, self.force, ",".join(p.hex() for p in self.pats))

    def describe(self):
        return {"name": self.name, "patterns": [p.decode("latin1") for p in self.pats], "match_kind": self.mk,
                "packed_config": self.force}

    @property
    def maxlen(self):
        return max(len(p) for p in self.pats)

    @property
    def minlen(self):
        return min(len(p) for p in self.pats)


# --------------------------------------------------------------------------
# harnesses


class Harness:
    """One #[kani::proof]: a template instantiated on a case."""

    def __init__(self, name, case, body, unwind, schema, meta, stubs=(), unwindset=None,
                 timeout=600, mem_gb=16, covers_required=True, functions=(), unsat_ok=(),
                 should_panic=False, must_unsat=()):
        self.name = name
        self.case = case
        self.body = body
        self.unwind = unwind
        self.schema = schema  # list of (var, kind) in kani::any() call order
        self.meta = meta  # template name, kind, bounds, ... (evidence + replay)
        self.stubs = list(stubs)
        self.unwindset = unwindset or {}  # {(fn substring, loop idx): bound}
        # VERIF_TIMEOUT_SCALE: development aid for measuring harnesses beyond their cap
        self.timeout = int(timeout * float(os.environ.get("VERIF_TIMEOUT_SCALE", "1")))
        self.mem_gb = mem_gb
        self.covers_required = covers_required
        self.functions = list(functions)
        # cover witnesses that are unsatisfiable by construction for this case
        # (e.g. "no match is found" when the empty pattern is present)
        self.unsat_ok = set(unsat_ok)
        # #[kani::should_panic]: the harness must panic on every path; the
        # witnesses in must_unsat must come back UNSATISFIABLE/UNREACHABLE
        self.should_panic = should_panic
        self.must_unsat = set(must_unsat)
        # optional = a deep harness whose budget was not validated on this image: when it
        # runs out of time or memory it is reported as "not decided" (evidence + stdout)
        # and contributes nothing to the claim, instead of turning the whole check
        # inconclusive; a counterexample from it is replayed and reported like any other
        self.optional = False

    def rust(self):
        attrs = ["#[cfg(kani)]", "#[kani::proof]", "#[kani::unwind(%d)]" % self.unwind]
        if self.should_panic:
            attrs.append("#[kani::should_panic]")
        for (orig, repl) in self.stubs:
            attrs.append("#[kani::stub(%s, %s)]" % (orig, repl))
        return "%s\npub fn %s() {\n%s\n}\n" % ("\n".join(attrs), self.name, self.body)


# memchr itself is replaced by its executable contract at crate level
# (harness/Cargo.toml [patch]); the only function stub a prefilter harness
# still needs keeps the packed searcher out of the dyn-dispatch exploration.
STUB_PF = [
    ("aho_corasick::packed::api::Searcher::find_in", "crate::stubs::packed_unused"),
]

STUB_MEMCHR = [
    ("memchr::memchr::memchr", "crate::stubs::memchr1"),
    ("memchr::memchr::memchr2", "crate::stubs::memchr2"),
    ("memchr::memchr::memchr3", "crate::stubs::memchr3"),
    ("core::arch::x86_64::__cpuid_count", "crate::stubs::cpuid_stub"),
]


# --------------------------------------------------------------------------
# results


class Result:
    def __init__(self, h):
        self.h = h
        self.status = None  # held | failed | inconclusive
        self.reason = ""
        self.failed_checks = []  # [(check name, description, location)]
        self.unsat_covers = []
        self.sat_covers = []
        self.n_checks = 0
        self.n_covers = 0
        self.n_covers_sat = 0
        self.verif_time = None
        self.wall = None
        self.playback = []  # [(description, [bytes...])]
        self.logfile = None
        self.decoded = None
        self.replay = None  # dict(path, reproduced)

    def summary(self):
        d = dict(self.h.meta)
        d.update(
            harness=self.h.name, case=self.h.case.describe() if self.h.case else None,
            status=self.status, reason=self.reason, checks=self.n_checks,
            covers=self.n_covers, covers_satisfied=self.n_covers_sat,
            solver_s=self.verif_time, wall_s=round(self.wall or 0, 1), unwind=self.h.unwind,
            unwindset={"%s.%s" % k: v for k, v in self.h.unwindset.items()},
            stubs=[s[0] for s in self.h.stubs], functions=self.h.functions,
        )
        if self.failed_checks:
            d["failed_checks"] = self.failed_checks[:5]
        if self.decoded:
            d["counterexample"] = self.decoded
        return d


CHECK_RE = re.compile(
    r"^Check (\d+): (.+)\n\s+- Status: (\w+)\n\s+- Description: \"(.*)\"\n(?:\s+- Location: (.*)\n)?", re.M)


def parse_kani_log(text, res):
    m = re.search(r"^VERIFICATION:- (\w+)", text, re.M)
    verdict = m.group(1) if m else None
    m = re.search(r"\*\* (\d+) of (\d+) failed", text)
    if m:
        res.n_checks = int(m.group(2))
    m = re.search(r"\*\* (\d+) of (\d+) cover properties satisfied", text)
    if m:
        res.n_covers_sat, res.n_covers = int(m.group(1)), int(m.group(2))
    m = re.search(r"^Verification Time: ([0-9.]+)s", text, re.M)
    if m:
        res.verif_time = float(m.group(1))
    errors = 0
    for cm in CHECK_RE.finditer(text):
        _, name, status, desc, loc = cm.groups()
        if status == "FAILURE":
            res.failed_checks.append((name, desc, loc or ""))
        elif status in ("ERROR",):
            errors += 1
        elif status in ("UNSATISFIABLE", "UNREACHABLE") and ".cover." in name:
            res.unsat_covers.append((name, desc))
        elif status == "SATISFIED" and ".cover." in name:
            res.sat_covers.append((name, desc))
    # concrete playback blocks
    for blk in text.split("/// Check for `")[1:]:
        hm = re.match(r"(\w+)`: (.*)\n", blk)
        bm = re.search(r"let concrete_vals: Vec<Vec<u8>> = vec!\[\n(.*?)\n\s+\];", blk, re.S)
        if not hm or not bm:
            continue
        vals = []
        for vm in re.finditer(r"vec!\[([0-9, ]*)\]", bm.group(1)):
            v = vm.group(1).strip()
            vals.append([int(x) for x in v.split(",") if x.strip()] if v else [])
        res.playback.append((hm.group(1), hm.group(2).strip().strip('"'), vals))
    if verdict is None:
        res.status, res.reason = "inconclusive", "no verdict in log (crash, timeout or out of memory)"
        return
    if "CBMC appears to have run out of memory" in text or "CBMC failed" in text:
        res.status, res.reason = "inconclusive", "CBMC ran out of memory (limit %d GB)" % res.h.mem_gb
        return
    if errors:
        res.status, res.reason = "inconclusive", "%d checks with Status: ERROR (solver out of memory)" % errors
        return
    unwinding = [c for c in res.failed_checks if "unwinding assertion" in c[1]]
    if unwinding:
        res.status, res.reason = "inconclusive", "unwinding assertion failed: %s" % (unwinding[0][2],)
        return
    unsupported = [c for c in res.failed_checks if "not currently supported" in c[1] or "unsupported" in c[0]]
    if unsupported:
        res.status, res.reason = "inconclusive", "unsupported construct reached: %s" % (unsupported[0][1],)
        return
    if res.h.should_panic:
        # Kani reports SUCCESSFUL iff at least one panic is reachable and
        # nothing else failed; "never returns" is the must_unsat witness.
        leaked = [c for c in res.sat_covers if c[1].strip('"') in res.h.must_unsat]
        others = [c for c in res.failed_checks if "is not expected to fail" not in c[1] and "expect" not in c[1].lower()
                  and "Err` value" not in c[1] and "unwrap" not in c[1]]
        if leaked:
            res.status, res.failed_checks = "failed", [(c[0], "infallible API %s in a rejected configuration" % c[1], "") for c in leaked]
            res.reason = res.failed_checks[0][1]
        elif verdict == "SUCCESSFUL":
            res.status = "held"
        else:
            res.status = "failed" if others else "inconclusive"
            res.reason = "should_panic harness: verdict %s; %s" % (verdict, (others or res.failed_checks)[:2])
        return
    if verdict == "SUCCESSFUL" and not res.failed_checks:
        bad = [c for c in res.unsat_covers if c[1].strip('"') not in res.h.unsat_ok]
        missing = res.n_covers - res.n_covers_sat - len(res.unsat_covers)
        if res.h.covers_required and (bad or missing > 0):
            res.status = "inconclusive"
            res.reason = "vacuity witness not satisfied: %s" % ([c[1] for c in bad][:3] or "%d unparsed" % missing,)
        else:
            res.status = "held"
        return
    if res.failed_checks:
        res.status = "failed"
        res.reason = "; ".join("%s @ %s" % (c[1], c[2]) for c in res.failed_checks[:3])
        return
    res.status, res.reason = "inconclusive", "verdict %s without failed checks" % verdict


def decode_playback(schema, vals):
    """Map the flat list of kani::any() byte vectors onto the template's
    schema. kinds: ('bytes', n) = n single-byte values; 'usize'; 'bool'; 'u8'."""
    out = {}
    i = 0
    try:
        for (var, kind) in schema:
            if isinstance(kind, tuple) and kind[0] == "bytes":
                n = kind[1]
                out[var] = bytes(v[0] for v in vals[i:i + n]).hex()
                if len(vals[i:i + n]) != n:
                    return None
                i += n
            elif kind == "usize":
                out[var] = int.from_bytes(bytes(vals[i]), "little")
                i += 1
            elif kind in ("bool", "u8"):
                out[var] = vals[i][0]
                i += 1
            else:
                return None
    except (IndexError, TypeError):
        return None
    return out


# --------------------------------------------------------------------------
# the run


class Run:
    def __init__(self, prop, tier, seed):
        self.prop, self.tier, self.seed = prop, tier, seed
        self.t0 = time.time()
        self.dir = os.path.join(SCRATCH_BASE, "verif-%s-%s-%d" % (prop, tier, os.getpid()))
        shutil.rmtree(self.dir, ignore_errors=True)
        os.makedirs(self.dir)
        self.facts = {}
        self.notes = []
        # private snapshot of the hook bodies: edits to /verif/hooks while a
        # run is in flight must not reach its Kani builds
        self.hooks = os.path.join(self.dir, "hooks")
        shutil.copytree(HOOKS, self.hooks)
        self.env = dict(BASE_ENV)
        self.env["AHO_CORASICK_VERIF_HOOKS"] = self.hooks

    def cleanup(self):
        shutil.rmtree(self.dir, ignore_errors=True)

    # -- phase A
    def build_vdump(self):
        import fcntl
        import hashlib
        tag = "" if REPO == "/repo" else "-" + hashlib.md5(REPO.encode()).hexdigest()[:8]
        tdir = os.path.join(VERIF, ".cache", "vdump-target" + tag)
        os.makedirs(tdir, exist_ok=True)
        vsrc = os.path.join(VERIF, "vdump")
        if REPO != "/repo":
            # scratch copy of the vdump crate whose path dependency is VERIF_REPO
            vsrc = os.path.join(self.dir, "vdump-src")
            shutil.copytree(os.path.join(VERIF, "vdump"), vsrc, ignore=shutil.ignore_patterns("target"))
            os.makedirs(os.path.join(self.dir, "harness", "src"), exist_ok=True)
            for f in ("oracle.rs", "stubs.rs"):
                shutil.copy(os.path.join(VERIF, "harness", "src", f), os.path.join(self.dir, "harness", "src", f))
            shutil.copytree(os.path.join(VERIF, "memchr-model"), os.path.join(self.dir, "memchr-model"),
                            ignore=shutil.ignore_patterns("target", "Cargo.lock"), dirs_exist_ok=True)
            ct = open(os.path.join(vsrc, "Cargo.toml")).read().replace('path = "/repo"', 'path = "%s"' % REPO)
            open(os.path.join(vsrc, "Cargo.toml"), "w").write(ct)
            mt = open(os.path.join(vsrc, "src", "main.rs")).read().replace("../../harness/src/", "../../harness/src/")
            open(os.path.join(vsrc, "src", "main.rs"), "w").write(mt)
        lock = os.path.join(vsrc, "Cargo.lock")
        if not os.path.exists(lock):
            copy_lock(lock)
        with open(os.path.join(VERIF, ".cache", "vdump%s.lock" % tag), "w") as lf:
            fcntl.flock(lf, fcntl.LOCK_EX)
            p = sh(["cargo", "build", "--offline", "--manifest-path", os.path.join(vsrc, "Cargo.toml"),
                    "--target-dir", tdir], check=False)
            if p.returncode != 0:
                raise Inconclusive("vdump does not build against /repo with hooks on:\n" + p.stdout[-6000:])
            # private copy: a concurrent check may rebuild the cached binary
            self.vdump = os.path.join(self.dir, "vdump")
            shutil.copy(os.path.join(tdir, "debug", "vdump"), self.vdump)

    def phase_a(self, cases):
        self.build_vdump()
        self.cases = {c.name: c for c in cases}
        cpath = os.path.join(self.dir, "cases.txt")
        with open(cpath, "w") as f:
            for c in cases:
                f.write(c.line() + "\n")
        self.gen_rs = os.path.join(self.dir, "gen.rs")
        fpath = os.path.join(self.dir, "facts.json")
        p = sh([self.vdump, "gen", cpath, self.gen_rs, fpath], check=False, timeout=600)
        if p.returncode != 0:
            raise Inconclusive("vdump failed (a builder panicked or a requested kind was not honoured):\n" + p.stdout[-4000:])
        self.facts = json.load(open(fpath))
        for name, f in self.facts.items():
            for pr in f["problems"]:
                if "rebuild" in pr or "dump(" in pr:
                    raise Inconclusive("reconstruction fidelity check failed for %s: %s" % (name, pr))
                self.notes.append("%s: %s" % (name, pr))
        return self.facts

    # -- phase B
    def setup_crate(self, harnesses):
        self.crate = os.path.join(self.dir, "h")
        shutil.copytree(os.path.join(VERIF, "harness"), self.crate)
        shutil.copy(self.gen_rs, os.path.join(self.crate, "src", "gen.rs"))
        copy_lock(os.path.join(self.crate, "Cargo.lock"))
        # private snapshot of the memchr contract model as well
        mm = os.path.join(self.dir, "memchr-model")
        shutil.copytree(os.path.join(VERIF, "memchr-model"), mm, ignore=shutil.ignore_patterns("target", "Cargo.lock"),
                        dirs_exist_ok=True)
        ct = open(os.path.join(self.crate, "Cargo.toml")).read().replace('path = "/verif/memchr-model"', 'path = "%s"' % mm)
        if REPO != "/repo":
            ct = ct.replace('path = "/repo"', 'path = "%s"' % REPO)
        open(os.path.join(self.crate, "Cargo.toml"), "w").write(ct)
        with open(os.path.join(self.crate, "src", "inst.rs"), "w") as f:
            f.write("// @generated by check.py\n#![allow(unused)]\nuse crate::{gen, templates as t, Case};\n")
            for h in harnesses:
                f.write(h.rust() + "\n")

    def loop_ids(self, h, tdir):
        """Resolve the harness's per-loop bounds to CBMC loop ids using the
        loop list of this very build (stale ids would be silently ignored by
        CBMC): compile only, then ask CBMC for the loops of the goto binary."""
        if not h.unwindset:
            return []
        p = sh(["cargo", "kani", "--only-codegen", "--harness", "inst::" + h.name, "--exact", "--target-dir", tdir]
               + (["-Z", "stubbing"] if h.stubs else []),
               cwd=self.crate, env=self.env, check=False, timeout=900)
        outs = []
        for root, _dirs, files in os.walk(tdir):
            for fn in files:
                if fn.endswith(h.name + ".out"):
                    outs.append(os.path.join(root, fn))
        if not outs:
            raise Inconclusive("unwindset: no goto binary for %s after --only-codegen:\n%s" % (h.name, p.stdout[-1500:]))
        q = sh(["cbmc", "--show-loops", outs[0]], env=self.env, check=False, timeout=600)
        ids = re.findall(r"^Loop (\S+):", q.stdout, re.M)
        out = []
        for (pat, idx), bound in h.unwindset.items():
            if pat.startswith("="):
                # literal id of a CPROVER library loop (added at link time, not listed here)
                out.append("%s.%d:%d" % (pat[1:], idx, bound))
                continue
            if idx is None:  # every loop of the matching function(s)
                hits = [i for i in ids if pat in i]
            else:
                hits = [i for i in ids if pat in i and i.endswith(".%d" % idx)]
            if not hits:
                raise Inconclusive("unwindset: no loop matches %r.%s in harness %s" % (pat, idx, h.name))
            for i in hits:
                out.append("%s:%d" % (i, bound))
        return out

    def run_one(self, h):
        res = Result(h)
        t0 = time.time()
        tdir = os.path.join(self.dir, "t_" + h.name)
        logf = os.path.join(self.dir, h.name + ".log")
        res.logfile = logf
        try:
            cmd = ["cargo", "kani", "--harness", "inst::" + h.name, "--exact", "--target-dir", tdir]
            zs = []
            if h.stubs:
                zs += ["-Z", "stubbing"]
            ids = self.loop_ids(h, tdir)
            if ids:
                zs += ["-Z", "unstable-options"]
            cmd += zs
            if ids:
                cmd += ["--cbmc-args", "--unwindset", ",".join(ids)]

            def limit():
                b = h.mem_gb * (1 << 30)
                resource.setrlimit(resource.RLIMIT_AS, (b, b))
                os.setsid()

            with open(logf, "w") as lf:
                p = subprocess.Popen(cmd, cwd=self.crate, env=self.env, stdout=lf, stderr=subprocess.STDOUT,
                                     preexec_fn=limit)
                try:
                    p.wait(timeout=h.timeout)
                except subprocess.TimeoutExpired:
                    try:
                        os.killpg(p.pid, 9)
                    except ProcessLookupError:
                        pass
                    p.wait()
                    res.status, res.reason = "inconclusive", "wall cap %ds exceeded" % h.timeout
            text = open(logf, errors="replace").read()
            if res.status is None:
                parse_kani_log(text, res)
            if res.status == "failed":
                # second run for the solver's assignment (concrete playback)
                cmd2 = cmd[:7] + ["-Z", "concrete-playback", "--concrete-playback=print"] + cmd[7:]

                def limit2():
                    # trace generation needs more memory than the verdict alone (measured: a 16 GB harness
                    # whose playback run was killed at 16 GB and therefore produced no values)
                    b = min(max(2 * h.mem_gb, 32), 44) * (1 << 30)
                    resource.setrlimit(resource.RLIMIT_AS, (b, b))
                    os.setsid()

                with open(logf + ".pb", "w") as lf:
                    p = subprocess.Popen(cmd2, cwd=self.crate, env=self.env, stdout=lf, stderr=subprocess.STDOUT,
                                         preexec_fn=limit2)
                    try:
                        p.wait(timeout=h.timeout * 2)
                    except subprocess.TimeoutExpired:
                        try:
                            os.killpg(p.pid, 9)
                        except ProcessLookupError:
                            pass
                        p.wait()
                r2 = Result(h)
                parse_kani_log(open(logf + ".pb", errors="replace").read(), r2)
                res.playback = r2.playback
        except Inconclusive as e:
            res.status, res.reason = "inconclusive", str(e)
        except Exception as e:  # noqa
            res.status, res.reason = "inconclusive", "driver error: %r" % (e,)
        res.wall = time.time() - t0
        shutil.rmtree(tdir, ignore_errors=True)
        log("  [%s] %-48s %6.0fs  %s" % (res.status, h.name, res.wall, res.reason[:160]))
        return res

    def phase_b(self, harnesses, jobs=12):
        self.setup_crate(harnesses)
        # longest first
        order = sorted(harnesses, key=lambda h: -h.timeout)
        with ThreadPoolExecutor(max_workers=jobs) as ex:
            results = list(ex.map(self.run_one, order))
        return results
