"""Oracle self-test: push the rows of the crate's own test table
(/repo/src/tests.rs) through the executable specifications natively. A
disagreement means the oracle (or the table) is wrong and blocks the checks."""
import os
import re

from . import core


def rust_str(lit):
    """Decode the inside of a Rust string literal."""
    out = bytearray()
    i = 0
    while i < len(lit):
        c = lit[i]
        if c == "\\":
            n = lit[i + 1]
            if n == "x":
                out.append(int(lit[i + 2:i + 4], 16))
                i += 4
                continue
            out += {"n": b"\n", "t": b"\t", "r": b"\r", "0": b"\0", "\\": b"\\", '"': b'"', "'": b"'"}[n]
            i += 2
            continue
        out += c.encode("utf8")
        i += 1
    return bytes(out)


STR = r'"((?:[^"\\]|\\.)*)"'


def parse_groups(text):
    groups = {}
    for gm in re.finditer(r"^const (\w+): &'static \[SearchTest\] = &\[\n(.*?)^\];", text, re.M | re.S):
        name, body = gm.groups()
        rows = []
        for tm in re.finditer(r"t!\(\s*(\w+),\s*&\[(.*?)\],\s*" + STR + r",\s*&\[(.*?)\]\s*,?\s*\)", body, re.S):
            _n, pats, hay, matches = tm.groups()
            ps = [rust_str(x) for x in re.findall(STR, pats)]
            ms = [tuple(int(v) for v in m) for m in re.findall(r"\((\d+),\s*(\d+),\s*(\d+)\)", matches)]
            rows.append((ps, rust_str(hay), ms))
        groups[name] = rows
    return groups


def parse_collections(text):
    cols = {}
    for cm in re.finditer(r"^const (\w+): TestCollection =\s*&\[(.*?)\];", text, re.M | re.S):
        cols[cm.group(1)] = re.findall(r"\w+", cm.group(2))
    return cols


# collection -> (match kind, case-insensitive, overlapping, anchored)
SEMANTICS = {
    "AC_STANDARD_NON_OVERLAPPING": (0, 0, 0, 0),
    "AC_STANDARD_ANCHORED_NON_OVERLAPPING": (0, 0, 0, 1),
    "AC_STANDARD_OVERLAPPING": (0, 0, 1, 0),
    "AC_LEFTMOST_FIRST": (1, 0, 0, 0),
    "AC_LEFTMOST_FIRST_ANCHORED": (1, 0, 0, 1),
    "AC_LEFTMOST_LONGEST": (2, 0, 0, 0),
    "AC_LEFTMOST_LONGEST_ANCHORED": (2, 0, 0, 1),
}
EXTRA_GROUPS = [
    # (group, semantics) as used by the acasei_* test configurations
    ("ASCII_CASE_INSENSITIVE", (0, 1, 0, 0)), ("ASCII_CASE_INSENSITIVE", (1, 1, 0, 0)),
    ("ASCII_CASE_INSENSITIVE", (2, 1, 0, 0)), ("ASCII_CASE_INSENSITIVE_NON_OVERLAPPING", (0, 1, 0, 0)),
    ("ASCII_CASE_INSENSITIVE_NON_OVERLAPPING", (1, 1, 0, 0)), ("ASCII_CASE_INSENSITIVE_NON_OVERLAPPING", (2, 1, 0, 0)),
    ("ASCII_CASE_INSENSITIVE", (0, 1, 1, 0)), ("ASCII_CASE_INSENSITIVE_OVERLAPPING", (0, 1, 1, 0)),
]


def hexs(b):
    return b.hex()


def table_rows():
    text = open(os.path.join(core.REPO, "src", "tests.rs")).read()
    groups = parse_groups(text)
    cols = parse_collections(text)
    out = []
    todo = []
    for col, sem in SEMANTICS.items():
        for g in cols.get(col, []):
            todo.append((g, sem))
    todo += EXTRA_GROUPS
    for g, (mk, ci, ov, an) in todo:
        for (ps, hay, ms) in groups.get(g, []):
            out.append("%d|%d|%d|%d|%s|%s|%s" % (
                mk, ci, ov, an, ",".join("e" if not p else hexs(p) for p in ps), hexs(hay),
                ",".join("%d:%d:%d" % m for m in ms)))
    return out


def oracle_selftest(run):
    rows = table_rows()
    path = os.path.join(run.dir, "table.txt")
    with open(path, "w") as f:
        f.write("\n".join(rows) + "\n")
    p = core.sh([run.vdump, "selftest", path], check=False, timeout=300)
    return p.returncode, p.stdout
